"""Equal.tla <-> valjean.gavroche.test (check_bins, TestEqual, TestApproxEqual, TestResultFailed) and
valjean.gavroche.diagnostics.metadata (TestMetadata), with valjean.gavroche.eval_test_task as a client.

Extra module (outside the listed properties): a disagreement between the real code and Equal.tla is reported as an
OBSERVATION (recorded in ctx.cov['equal']), never as a violation.

spec -> code : every evaluated state TLC dumps (exhaustive grids of 1-4 cells x 1-3 compared datasets over small numbers,
               NaN, +-inf; every pair of geometries of a library of bins / shapes; metadata dictionaries x exclusions) is
               built as real Datasets / dictionaries, TestEqual, TestApproxEqual (every (rtol, atol) of the grid, also with the
               roles exchanged, the datasets reversed, evaluated twice, through actually_eval_test) and TestMetadata are
               evaluated and the projections compared with the `out` TLC computed.
code -> spec : seeded random larger comparisons (shapes to 3-d, C / Fortran / transposed / strided memory layouts, int /
               float32 / float64, 0-d datasets, bins as arrays or lists, perturbed geometries) are executed -- the TestEqual of a
               whole batch also as one EvalTestTask -- recorded as JSON with exact rationals and judged by TLC through
               EqualTrace.tla.
"""
import json
import multiprocessing
import os
import re
import sys
import zlib
from collections import OrderedDict
from concurrent.futures import ProcessPoolExecutor, ThreadPoolExecutor

import numpy as np

import tlc
from tlc import Raw
from tlaval import MV, parse_state, to_tla

SPEC = os.path.join(tlc.SPECS, 'Equal.tla')
TRACE = os.path.join(tlc.SPECS, 'EqualTrace.tla')
DATA_INVS = ['Idempotent', 'RefusedIff', 'EqualBinsNeverRefused', 'RefusalIsNotAVerdict', 'EqualDef', 'NaNEqualsNothing',
             'ErrorsIgnored', 'ApproxVerdictDef', 'Monotone', 'EqualImpliesClose', 'Infinities', 'SymmetricAtZeroRtol',
             'OrderIndependent']
META_INVS = ['Idempotent', 'MetaVerdictDef', 'MetaMissingFails', 'MetaExclude', 'MetaOrderIndependent', 'MetaReference']
TRACE_INVS = [i for i in DATA_INVS + META_INVS if i not in ('Idempotent', 'ErrorsIgnored', 'OrderIndependent', 'MetaOrderIndependent')]
DATA_WITNESSES = ['W_Asymmetric', 'W_CloseNotEqual', 'W_TolMatters', 'W_InfClose', 'W_NaNFails', 'W_Boundary', 'W_Band',
                  'W_RefusedBins', 'W_RefusedOrder', 'W_RefusedShape', 'W_RefusedShapeNoBins', 'W_FreeNaNEdge', 'W_AnyException', 'W_MixedVerdicts']
META_WITNESSES = ['W_MetaPass', 'W_MetaMissing', 'W_MetaExcludedDiffers', 'W_MetaAbsentEverywhere']
MVS = {'NaN': Raw('NaN'), 'PInf': Raw('PInf'), 'NInf': Raw('NInf')}
NPROC = min(16, os.cpu_count() or 4)
JVM_ENV = dict(JAVA_TOOL_OPTIONS='-XX:ParallelGCThreads=2 -XX:TieredStopAtLevel=1')
SPECIAL = {'NaN': 'nan', 'PInf': 'inf', 'NInf': '-inf'}
TLA_OF = {v: k for k, v in SPECIAL.items()}

# ---------------------------------------------------------------------------------------------------------
# the library of geometries (bins + shape of the value array).  Edges are integers e standing for e / 2.

def geom(names, edges, shape):
    return dict(names=tuple(names), edges=tuple(tuple(e) for e in edges), shape=tuple(shape))


GEOMS = {
    'e2': geom(['x'], [[0, 1, 2]], [2]),            # 3 edges, 2 cells
    'e2b': geom(['x'], [[0, 1, 3]], [2]),           # an edge differs
    'y2': geom(['y'], [[0, 1, 2]], [2]),            # the name differs
    'c2': geom(['x'], [[0, 1]], [2]),               # 2 centres: number of edges differs from e2
    'e1': geom(['x'], [[0, 1]], [1]),               # same bins as c2, 1 cell (numpy would broadcast)
    'c3': geom(['x'], [[0, 1, 2]], [3]),            # same bins as e2, 3 cells (numpy cannot broadcast)
    'n2': geom(['x'], [[0, 'nan', 2]], [2]),        # NaN among the edges
    'nb2': geom([], [], [2]),                       # no bins
    'nb1': geom([], [], [1]),
    'nb0': geom([], [], []),                        # 0-d dataset
    'xy': geom(['x', 'y'], [[0, 1], [0, 1, 2]], [1, 2]),
    'yx': geom(['y', 'x'], [[0, 1, 2], [0, 1]], [2, 1]),        # the same dimensions in the other order
    'xy22': geom(['x', 'y'], [[0, 1, 2], [0, 1, 2]], [2, 2]),
    'yx22': geom(['y', 'x'], [[0, 1, 2], [0, 1, 2]], [2, 2]),   # other order, same shape
    'xz22': geom(['x', 'z'], [[0, 1, 2], [0, 1, 2]], [2, 2]),
    'em2': geom(['x'], [[]], [2]),                  # an empty edge array (accepted by Dataset)
}
T5 = [(0, 1), (1, 10), (1, 2), (1, 1), (2, 1)]
T3 = [(0, 1), (1, 2), (2, 1)]
T4 = [(0, 1), (1, 4), (1, 2), (2, 1)]
FULL_V = [-3, -2, -1, 0, 1, 2, 3, 'nan', 'inf', '-inf']

# metadata renderings: key index -> key name, value index -> python value (pairwise unequal)
KEY_NAMES = [['zone', 'index', 'score_name'], ['results', 'a', 'response_type']]
DEFAULT_EXCLUDE = ('results', 'index', 'score_index', 'response_index', 'response_type')
VALUE_POOLS = [['beer', 7, (1, 2), 2.5], [[1, 'x'], 'Beer', None, -1]]
DICT_NAMES = [['a', 'b', 'c', 'd'], ['d', 'c', 'b', 'a'], ['m2', 'm10', 'M3', 'a']]


# ---------------------------------------------------------------------------------------------------------
# helpers

def mc_module(wd, base, name, defs, extra=''):
    lines = ['---- MODULE %s ----' % name, 'EXTENDS %s' % base]
    consts = {}
    for k, v in defs.items():
        lines.append('MC_%s == %s' % (k, v if isinstance(v, Raw) else to_tla(v)))
        consts[k] = Raw('<- MC_%s' % k)
    lines.append(extra)
    lines.append('====')
    path = os.path.join(wd, name + '.tla')
    with open(path, 'w') as f:
        f.write('\n'.join(lines) + '\n')
    return path, consts


def tla_num(x):
    return MV(TLA_OF[x]) if isinstance(x, str) else int(x)


def tla_geom(g):
    return dict(names=tuple(g['names']), edges=tuple(tuple(tla_num(e) for e in es) for es in g['edges']), shape=tuple(g['shape']))


def tla_set(items):
    return Raw('{%s}' % ', '.join(to_tla(x) for x in items))


def num(x):
    return SPECIAL[str(x)] if isinstance(x, MV) else int(x)


def tagged(x):
    return {'nan': [1, 0], 'inf': [2, 0], '-inf': [3, 0]}.get(x) or [0, int(x)]


def ncells(shape):
    return int(np.prod(shape)) if len(shape) else 1


def run_parallel(fn, chunks):
    chunks = [c for c in chunks if c]
    if len(chunks) <= 1:
        return [fn(c) for c in chunks]
    mp = multiprocessing.get_context('fork')
    with ProcessPoolExecutor(max_workers=min(NPROC, len(chunks)), mp_context=mp) as ex:
        return list(ex.map(fn, chunks))


def chunked(seq, n):
    k = max(1, (len(seq) + n - 1) // n)
    return [seq[i:i + k] for i in range(0, len(seq), k)]


def _tick(label, _t=[None]):
    import sys
    import time
    if os.environ.get('VERIF_TIMING'):
        now = time.time()
        if _t[0] is not None:
            sys.stderr.write('  [%6.1fs] %s\n' % (now - _t[0], label))
        _t[0] = now


# ---------------------------------------------------------------------------------------------------------
# running the implementation: datasets

def _array(numbers, shape, vden, dtype, layout):
    a = np.array([float(x) for x in numbers], dtype=float) / vden
    if dtype == 'int':
        a = a.astype(np.int64)
    elif dtype == 'float32':
        a = a.astype(np.float32)
    shape = tuple(shape)
    if shape == ():
        return np.array(a[0]) if layout == '0d-array' else a[0]
    a = a.reshape(shape)
    if layout == 'F':
        return np.asfortranarray(a)
    if layout == 'T':
        return np.ascontiguousarray(a.T).T                 # same values and shape, transposed memory
    if layout == 'S':
        big = np.full(shape[:-1] + (2 * shape[-1] + 1,), 99, dtype=a.dtype)
        big[..., 1::2] = a
        return big[..., 1::2]                              # non-contiguous slice of a larger array
    if layout == 'R':
        return a[::-1][::-1] if a.shape[0] > 1 else a     # negative-stride view of a view
    return a


def build_dataset(ds, case, k):
    """Dataset number k (0 = reference) of a case."""
    from valjean.eponine.dataset import Dataset
    dtype = case.get('dtype', 'float')
    if dtype == 'int' and not all(isinstance(v, int) and v % case['vden'] == 0 for v in ds['val']):
        dtype = 'float'
    layout = case.get('layout', 'C')
    value = _array(ds['val'], ds['shape'], case['vden'], dtype, layout)
    errs = case.get('err') or [1]
    error = np.full(np.shape(value), float(errs[k % len(errs)]))
    if tuple(ds['shape']) == () and layout != '0d-array':
        error = np.float64(error)
    bins = OrderedDict()
    how = case.get('bins', 'array')
    for name, edges in zip(ds['names'], ds['edges']):
        vals = [float(e) / 2 for e in edges]
        if how == 'list':
            bins[name] = vals
        elif how == 'mixed' and k % 2 and all(float(v).is_integer() for v in vals):
            bins[name] = np.array(vals).astype(np.int64)
        else:
            bins[name] = np.array(vals, dtype=float)
    return Dataset(value, error, bins=bins, name='ds%d' % k, what='w')


def _snapshot(dss):
    return [(np.array(d.value, copy=True).tobytes(), np.asarray(d.value).shape, np.array(d.error, copy=True).tobytes(),
             [(k, np.array(v, dtype=float).tobytes()) for k, v in d.bins.items()]) for d in dss]


def _flat(arr, shape):
    """(flattened booleans in C order, the array has the shape of the reference)."""
    a = np.asarray(arr)
    return [bool(x) for x in a.reshape(-1)], tuple(a.shape) == tuple(shape) and a.dtype == np.bool_


def _raised(ex):
    from valjean.gavroche.test import CheckBinsException
    return 1 if isinstance(ex, CheckBinsException) else 2


def _listed_code(res):
    """What a client finds in the list of results: 2 a TestResultFailed (3 if it is true), else bool(result); 6 when taking the
    truth value of the result raises."""
    from valjean.gavroche.test import TestResultFailed
    try:
        verdict = bool(res)
    except Exception:  # pylint: disable=broad-except
        return 6
    if isinstance(res, TestResultFailed):
        return 3 if verdict else 2
    return int(verdict)


def observe_data(case):
    """Execute one dataset comparison; returns the recorded observables (see EqualTrace.tla)."""
    from valjean.gavroche.test import TestEqual, TestApproxEqual
    from valjean.gavroche.eval_test_task import actually_eval_test
    tols = [float(n) / float(d) for n, d in case['tols']]
    nt = len(tols)
    dss = [build_dataset(ds, case, k) for k, ds in enumerate([case['ref']] + case['oth'])]
    ref, oth = dss[0], dss[1:]
    shape = tuple(case['ref']['shape'])
    before = _snapshot(dss)
    obs = dict(raised=0, apraised=0, shp=True, eq=[], eqv=False, ap=[], apv=[], swap=[], revraised=0, rev=[], eq2=[], unmod=True,
               listed=0, exc='')
    test = TestEqual(ref, *oth, name='equal', description='conf_equal')
    try:
        serial = b''.join(bytes(x) for x in test.data())    # Test.data(): the serialised test (name, datasets)
    except Exception:  # pylint: disable=broad-except
        serial = None
    try:
        res = test.evaluate()
        for e in res.equal:
            flat, ok = _flat(e, shape)
            obs['eq'].append(flat)
            obs['shp'] = obs['shp'] and ok
        obs['eqv'] = bool(res)
        obs['eq2'] = [_flat(e, shape)[0] for e in test.evaluate().equal]
    except Exception as ex:  # pylint: disable=broad-except
        obs['raised'] = _raised(ex)
        obs['exc'] = '%s: %s' % (type(ex).__name__, str(ex).split('\n')[0][:80])
    try:
        res = TestEqual(ref, *oth[::-1], name='rev').evaluate()
        bool(res)
        obs['rev'] = [_flat(e, shape)[0] for e in res.equal]
    except Exception as ex:  # pylint: disable=broad-except
        obs['revraised'] = _raised(ex)
    try:
        obs['listed'] = _listed_code(actually_eval_test(test))
    except Exception:  # pylint: disable=broad-except
        obs['listed'] = 7                                   # the evaluation helper itself raised
    try:
        for r in range(nt):
            obs['ap'].append([])
            obs['apv'].append([])
            for a in range(nt):
                res = TestApproxEqual(ref, *oth, name='approx', rtol=tols[r], atol=tols[a]).evaluate()
                obs['ap'][r].append([_flat(e, shape)[0] for e in res.approx_equal])
                obs['shp'] = obs['shp'] and all(_flat(e, shape)[1] for e in res.approx_equal)
                obs['apv'][r].append(bool(res))
        if len(oth) == 1:
            for r in range(nt):
                obs['swap'].append([_flat(TestApproxEqual(oth[0], ref, name='swap', rtol=tols[r], atol=tols[a])
                                          .evaluate().approx_equal[0], shape)[0] for a in range(nt)])
    except Exception as ex:  # pylint: disable=broad-except
        obs['apraised'] = _raised(ex)
        obs['apexc'] = 'TestApproxEqual %s: %s' % (type(ex).__name__, str(ex).split('\n')[0][:80])
        obs['ap'], obs['apv'], obs['swap'] = [], [], []
    try:
        same_serial = serial is not None and b''.join(bytes(x) for x in test.data()) == serial
    except Exception:  # pylint: disable=broad-except
        same_serial = False
    obs['unmod'] = _snapshot(dss) == before and same_serial
    return obs


def observe_listed_by_task(cases, wd):
    """The TestEqual of every case, evaluated as ONE list of tests by a real EvalTestTask: per case 2 (TestResultFailed),
    else bool(result); None when the task itself failed."""
    from valjean.cosette.env import Env
    from valjean.cosette.pythontask import PythonTask
    from valjean.cosette.task import TaskStatus
    from valjean.config import Config
    from valjean.gavroche.eval_test_task import EvalTestTask
    from valjean.gavroche.test import TestEqual
    tests = []
    for n, case in enumerate(cases):
        dss = [build_dataset(ds, case, k) for k, ds in enumerate([case['ref']] + case['oth'])]
        tests.append(TestEqual(dss[0], *dss[1:], name='t%d' % n))
    maker = PythonTask('make_tests', lambda: ({'make_tests': {'result': tests}}, TaskStatus.DONE))
    evalt = EvalTestTask.from_test_task(maker)
    config = Config()
    config.set('path', 'output-root', os.path.join(wd, 'evaltask'))
    env = Env()
    for task in (maker, evalt):
        env_up, status = task.do(env=env, config=config)
        env.set_status(task, status)
        env.apply(env_up)
    results = env[evalt.name]['result']
    if len(results) != len(tests):
        return None
    out = []
    for test, res in zip(tests, results):
        if res.test is not test:
            return None
        out.append(_listed_code(res))
    return out


# ---------------------------------------------------------------------------------------------------------
# running the implementation: metadata

def observe_meta(case):
    """case: vals [[v per key] per dictionary] (0 = key missing), excl [key index 1-based], rendering indices."""
    from valjean.gavroche.diagnostics.metadata import TestMetadata
    knames = KEY_NAMES[case.get('keys', 0)][:len(case['vals'][0])] if case['vals'] else []
    knames = knames + ['k%d' % k for k in range(len(knames), len(case['vals'][0]) if case['vals'] else 0)]
    pool = VALUE_POOLS[case.get('pool', 0)]
    dnames = DICT_NAMES[case.get('dnames', 0)]
    dmd = {}
    for n, row in enumerate(case['vals']):
        dmd[dnames[n]] = {knames[k]: pool[(v - 1) % len(pool)] if v <= len(pool) else 'v%d' % v for k, v in enumerate(row) if v}
    excl = tuple(knames[k - 1] for k in case['excl'])
    kwargs = {} if case.get('default_exclude') else dict(exclude=excl)
    obs = dict(raised=False, verdict=False, perkey=[2] * len(knames), byname=[[2] * len(case['vals']) for _ in knames],
               failed=[], exc='', reference='')
    try:
        test = TestMetadata(dmd, name='md', **kwargs)
        res = test.evaluate()
        obs['verdict'] = bool(res)
        per_key = res.per_key()
        failed = res.only_failed_comparisons()
        for k, kn in enumerate(knames):
            if kn in per_key:
                obs['perkey'][k] = int(bool(per_key[kn]))
            if kn in res.dict_res:
                obs['byname'][k] = [int(bool(res.dict_res[kn][dn])) if dn in res.dict_res[kn] else 2 for dn in dnames[:len(case['vals'])]]
            if kn in failed:
                obs['failed'].append(k + 1)
        if set(per_key) - set(knames) or set(res.dict_res) - set(knames):
            obs['perkey'] = [3] * len(knames)               # keys nobody gave
        if bool(test.evaluate()) != obs['verdict']:
            obs['raised'], obs['exc'] = True, 'second evaluation gives another verdict'
    except Exception as ex:  # pylint: disable=broad-except
        obs['raised'] = True
        obs['exc'] = '%s: %s' % (type(ex).__name__, str(ex)[:80])
    return obs


def default_exclude_applies(case):
    """The default `exclude` is equivalent to excluding exactly the keys of the rendering that it names."""
    knames = KEY_NAMES[case.get('keys', 0)][:len(case['vals'][0])]
    return sorted(case['excl']) == [k + 1 for k, kn in enumerate(knames) if kn in DEFAULT_EXCLUDE]


# ---------------------------------------------------------------------------------------------------------
# spec -> code: comparing with what TLC computed (same clauses as EqualTrace.tla!Mismatches)

def _plain(x):
    if isinstance(x, dict):
        return {k: _plain(v) for k, v in x.items()}
    if isinstance(x, (tuple, list)):
        return [_plain(v) for v in x]
    if isinstance(x, frozenset):
        return sorted(_plain(v) for v in x)
    return str(x) if isinstance(x, MV) else x


def _wrong_close(o, e):
    return len(o) != len(e) or any((ev == 1 and not ov) or (ev == 0 and ov) for ov, ev in zip(o, e))


def judge_data(out, obs, nd):
    """Mismatches between TLC's `out` and the observed projection: list of (clause, detail); #band; free."""
    bad = []
    if not obs['unmod']:
        bad.append(('datasets-modified', ''))
    if not obs['shp'] and out['refused'] != 'yes':
        bad.append(('result-shape', ''))
    free = out['refused'] == 'free'
    eq = [list(e) for e in out['eq']]
    nt = len(out['apv'])
    band = 0

    def eq_arrays():
        if obs['eq'] != eq:
            bad.append(('equal-array', ''))
        if obs['eqv'] != out['eqv']:
            bad.append(('equal-verdict', str(out['eqv']).lower()))
        if obs['revraised'] != 0 or obs['rev'] != eq[::-1]:
            bad.append(('order-of-datasets', ''))
        if obs['eq2'] != eq:
            bad.append(('evaluated-twice', ''))
        if obs['listed'] != int(out['eqv']):
            bad.append(('result-list', str(out['eqv']).lower()))

    def ap_arrays():
        arr = ver = False
        for r in range(nt):
            for a in range(nt):
                for d in range(nd):
                    arr = arr or _wrong_close(obs['ap'][r][a][d], out['ap'][r][a][d])
                e = out['apv'][r][a]
                ver = ver or (e == 'pass' and not obs['apv'][r][a]) or (e == 'fail' and obs['apv'][r][a])
        if arr:
            bad.append(('approx-array', ''))
        if ver:
            bad.append(('approx-verdict', ''))
        if nd == 1 and (len(obs['swap']) != nt or any(_wrong_close(obs['swap'][r][a], out['swap'][r][a]) for r in range(nt) for a in range(nt))):
            bad.append(('approx-swapped', ''))

    for raised, what, arrays in ((obs['raised'], '', eq_arrays), (obs['apraised'], 'approx-', ap_arrays)):
        quiet = what and obs['apraised'] == obs['raised']       # do not repeat for TestApproxEqual what TestEqual shows alike
        if quiet and (out['refused'] == 'yes' or raised != 0):
            continue
        if out['refused'] == 'yes':
            if raised == 0:
                bad.append((what + 'refusal-expected', next(c for c in out['cls'] if c in ('bins', 'order', 'shape', 'shape0'))))
            elif out['exc'] == 'CheckBins' and raised != 1:
                bad.append((what + 'exception-kind', 'CheckBins'))
        elif raised != 0:
            if out['refused'] == 'no':
                bad.append((what + 'spurious-refusal', ''))
            elif raised != 1:
                bad.append((what + 'exception-kind', 'CheckBins'))
        else:
            arrays()
    if out['refused'] == 'yes' and obs['raised'] != 0:
        if obs['listed'] != 2:
            bad.append(('result-list', 'failed'))
        if obs['revraised'] == 0:
            bad.append(('order-of-datasets', 'refused'))
    if out['refused'] != 'yes' and obs['apraised'] == 0:
        band = sum(1 for r in range(nt) for a in range(nt) for d in range(nd) for c in out['ap'][r][a][d] if c == 2)
    return bad, band, free


def judge_meta(out, obs, nk, nd):
    if obs['raised']:
        return [('metadata-raised', '')]
    bad = []
    if obs['verdict'] != out['verdict']:
        bad.append(('metadata-verdict', str(out['verdict']).lower()))
    if obs['perkey'] != list(out['perkey']):
        bad.append(('metadata-per-key', ''))
    if sorted(obs['failed']) != sorted(out['failed']):
        bad.append(('metadata-failed-keys', ''))
    if not any(all(obs['byname'][k][n] == out['byref'][r][k][n] for k in range(nk) for n in range(nd)) for r in range(nd)):
        bad.append(('metadata-per-name', ''))
    return bad


def ds_of_state(d):
    g = d['g']
    return dict(names=[str(n) for n in g['names']], edges=[[num(e) for e in es] for es in g['edges']],
                shape=[int(s) for s in g['shape']], val=[num(v) for v in d['val']])


def case_of_state(st, vden, tols, variant):
    case = dict(kind='data', vden=vden, tols=[list(t) for t in tols], ref=ds_of_state(st['ref']),
                oth=[ds_of_state(d) for d in st['oth']], err=[num(st['ref']['err'])] + [num(d['err']) for d in st['oth']])
    case.update(variant)
    return case


def size_of(case):
    if case['kind'] == 'meta':
        return (len(case['vals']), sum(1 for r in case['vals'] for v in r if v), len(case['excl']), json.dumps(case, sort_keys=True))
    cells = sum(ncells(d['shape']) for d in [case['ref']] + case['oth'])
    plain = case.get('layout', 'C') == 'C' and case.get('dtype', 'float') == 'float' and case.get('bins', 'array') == 'array'
    specials = sum(1 for d in [case['ref']] + case['oth'] for v in d['val'] if isinstance(v, str))
    return (len(case['oth']), cells, not plain, specials, json.dumps(case, sort_keys=True))


def variants_for(case_shape, crc, vals_int, dyadic):
    """Renderings of one dumped state: always the plain one, plus one chosen by the content hash."""
    extra = [dict(bins='list'), dict(bins='mixed')]
    if len(case_shape) >= 2:
        extra += [dict(layout='F'), dict(layout='T'), dict(layout='S')]
    elif len(case_shape) == 1:
        extra += [dict(layout='S'), dict(layout='R')]
    else:
        extra += [dict(layout='0d-array')]
    if vals_int:
        extra.append(dict(dtype='int'))
    if dyadic:
        extra.append(dict(dtype='float32'))
    return [dict()] + ([extra[crc % len(extra)]] if crc % 3 == 0 else [])


def _replay_data(args):
    blocks, vden, tols = args
    res = dict(n=0, evals=0, bad=[], band=0, free=[0, 0, 0], distinct=set())
    dyadic = all(d & (d - 1) == 0 for _, d in tols)
    for blk in blocks:
        st = parse_state(blk)
        out = _plain(st['out'])
        nd = len(st['oth'])
        res['n'] += 1
        crc = zlib.crc32(blk.encode())
        vals_int = all(isinstance(v, int) and v % vden == 0 for d in (st['ref'],) + tuple(st['oth']) for v in d['val'])
        res['distinct'].add((tuple(out['cls']), out['refused'], bool(out.get('eqv')), json.dumps(out.get('apv'))))
        for variant in variants_for(tuple(st['ref']['g']['shape']), crc, vals_int, dyadic):
            case = case_of_state(st, vden, tols, variant)
            obs = observe_data(case)
            res['evals'] += 1
            bad, band, free = judge_data(out, obs, nd)
            res['band'] += band if not variant else 0
            if free:
                res['free'][0] += 1
                res['free'][1 + (obs['raised'] == 0)] += 1
            for clause, detail in bad:
                res['bad'].append((clause, detail, case, _brief(obs)))
    return res


def _replay_meta(blocks):
    res = dict(n=0, evals=0, bad=[], refs=dict(first_given=0, first_by_name=0, ambiguous=0), distinct=set())
    for blk in blocks:
        st = parse_state(blk)
        out = _plain(st['out'])
        vals = [[int(v) for v in row] for row in st['md']]
        nd, nk = len(vals), len(vals[0])
        res['n'] += 1
        res['distinct'].add((tuple(out['perkey']), out['verdict'], nd))
        crc = zlib.crc32(blk.encode())
        base = dict(kind='meta', vals=vals, excl=sorted(int(k) for k in st['excl']))
        rend = [dict(keys=0, pool=0, dnames=0), dict(keys=crc % 2, pool=(crc >> 1) % 2, dnames=1 + (crc >> 2) % 2)]
        for r in rend:
            case = dict(base, **r)
            todo = [case]
            if default_exclude_applies(case):
                todo.append(dict(case, default_exclude=True))
            for c in todo:
                obs = observe_meta(c)
                res['evals'] += 1
                for clause, detail in judge_meta(out, obs, nk, nd):
                    res['bad'].append((clause, detail, c, _brief(obs)))
                if not obs['raised'] and nd >= 2 and c.get('dnames') == 1:
                    # which dictionary is "the first one": names given in reverse alphabetical order
                    m = [all(obs['byname'][k][n] == out['byref'][r][k][n] for k in range(nk) for n in range(nd)) for r in range(nd)]
                    if m[0] and not m[nd - 1]:
                        res['refs']['first_given'] += 1
                    elif m[nd - 1] and not m[0]:
                        res['refs']['first_by_name'] += 1
                    else:
                        res['refs']['ambiguous'] += 1
    return res


def _brief(obs):
    keep = ('raised', 'exc', 'apraised', 'apexc', 'eq', 'eqv', 'apv', 'shp', 'rev', 'revraised', 'eq2', 'unmod', 'listed', 'verdict', 'perkey', 'byname', 'failed')
    return {k: obs[k] for k in keep if k in obs}


# ---------------------------------------------------------------------------------------------------------
# TLC runs

def data_consts(vals, errs, refgeoms, geoms, same, maxds, tols, vden=1, relside='cmp'):
    c = dict(MVS)
    c.update(SameGeom=same, MaxDs=maxds, RelSide=relside, Mode='data', VDen=vden, NKeys=1, NVals=1, MaxDicts=1)
    defs = dict(Vals=tla_set(tla_num(v) for v in vals), Errs=tla_set(tla_num(e) for e in errs),
                RefGeoms=tla_set(tla_geom(GEOMS[g]) for g in refgeoms), Geoms=tla_set(tla_geom(GEOMS[g]) for g in geoms),
                Tols=tuple(tuple(t) for t in tols))
    return c, defs


def meta_consts(nkeys, nvals, maxdicts):
    c = dict(MVS)
    c.update(SameGeom=True, MaxDs=1, RelSide='cmp', Mode='meta', VDen=1, NKeys=nkeys, NVals=nvals, MaxDicts=maxdicts)
    defs = dict(Vals=Raw('{0}'), Errs=Raw('{0}'), RefGeoms=Raw('{}'), Geoms=Raw('{}'), Tols=((0, 1),))
    return c, defs


def run_model(wd, name, consts, defs, invariants, witnesses=(), **kw):
    """One TLC run of Equal.tla.  With `witnesses`: single worker, every W_* is probed on every state and the set of those
    found false somewhere (= reachable) comes back through the postcondition."""
    extra = ''
    c = dict(consts)
    cfgkw = dict(invariants=list(invariants), properties=['InputsUntouched'], deadlock=False)
    env = dict(JVM_ENV)
    if witnesses:
        probe = ' \\cup '.join('(IF %s THEN {} ELSE {"%s"})' % (w, w) for w in witnesses)
        extra = ('ProbeInit == Init /\\ TLCSet(7, {})\n'
                 'Probe == LET w == %s IN w = {} \\/ TLCSet(7, TLCGet(7) \\cup w)\n'
                 'ProbePost == JsonSerialize(IOEnv.VERIF_OUT, [w |-> TLCGet(7)])\n' % probe)
        cfgkw.update(init='ProbeInit', next_='Next', invariants=list(invariants) + ['Probe'], postcondition='ProbePost', properties=[])
        env['VERIF_OUT'] = os.path.join(wd, name + '_wit.json')
        kw['workers'] = 1
    mod, sub = mc_module(wd, 'Equal, Json, IOUtils' if witnesses else 'Equal', 'MC_' + name, defs, extra)
    c.update(sub)
    cfg = tlc.write_cfg(os.path.join(wd, name + '.cfg'), constants=c, **cfgkw)
    res = tlc.run(mod, cfg, env=env, **kw)
    if res.violation:
        raise tlc.MachineryError('Equal.tla %s: %s\n%s' % (name, res.violation, res.out[-1500:]))
    if witnesses:
        with open(env['VERIF_OUT']) as f:
            found = set(json.load(f)['w'])
        missing = [w for w in witnesses if w not in found]
        if missing:
            raise tlc.MachineryError('Equal.tla %s: witnesses not reachable: %s' % (name, missing))
    return res


def done_blocks(dump_path):
    path = dump_path if os.path.exists(dump_path) else dump_path + '.dump'
    with open(path) as f:
        txt = f.read()
    os.remove(path)
    return sorted(b for b in re.split(r'^State \d+:\n', txt, flags=re.M)[1:] if 'pc = "done"' in b)


# ---------------------------------------------------------------------------------------------------------
# code -> spec

SHAPES = [(), (), (1,), (2,), (3,), (5,), (7,), (1, 2), (2, 1), (2, 2), (2, 3), (3, 2), (4, 3), (1, 1, 3), (2, 2, 2), (2, 3, 2), (3, 1, 2)]
DIMS = ['e', 't', 'mu', 'x', 'y']
TRACE_GRIDS = [T5, [(0, 1), (1, 4), (1, 2), (1, 1)], [(0, 1), (1, 1000), (1, 100), (1, 8)], [(0, 1), (1, 3), (1, 1), (3, 1)],
               [(1, 16), (1, 10), (3, 2)]]


def _gen_geom(rng, shape):
    names = rng.sample(DIMS, len(shape))
    edges = []
    for s in shape:
        n = rng.choice([s, s + 1, s + 1])
        e, row = rng.randint(-4, 4), []
        for _ in range(n):
            row.append(e)
            e += rng.choice([1, 1, 2, 5])
        edges.append(row)
    if not shape or rng.random() < 0.15:
        return dict(names=[], edges=[], shape=list(shape))
    return dict(names=names, edges=edges, shape=list(shape))


def _perturb_geom(rng, g):
    """A geometry that differs (or not) from g: the generator only steers, the classification is TLC's."""
    g = dict(names=list(g['names']), edges=[list(e) for e in g['edges']], shape=list(g['shape']))
    nd = len(g['names'])
    how = rng.choice(['edge', 'name', 'order', 'count', 'drop', 'nan', 'shape', 'shape', 'nobins'])
    if how == 'edge' and nd:
        k = rng.randrange(nd)
        j = rng.randrange(len(g['edges'][k])) if g['edges'][k] else None
        if j is not None and not isinstance(g['edges'][k][j], str):
            g['edges'][k][j] += rng.choice([1, -1, 50])
    elif how == 'name' and nd:
        g['names'][rng.randrange(nd)] = 'other'
    elif how == 'order' and nd >= 2:
        k = rng.randrange(nd - 1)
        g['names'][k], g['names'][k + 1] = g['names'][k + 1], g['names'][k]
        g['edges'][k], g['edges'][k + 1] = g['edges'][k + 1], g['edges'][k]
        if rng.random() < 0.5:
            g['shape'][k], g['shape'][k + 1] = g['shape'][k + 1], g['shape'][k]
    elif how == 'count' and nd:
        k = rng.randrange(nd)
        s = g['shape'][k]
        g['edges'][k] = g['edges'][k][:s] if len(g['edges'][k]) == s + 1 else g['edges'][k] + [99]
    elif how == 'drop' and nd >= 2:
        g = dict(names=g['names'][:-1], edges=g['edges'][:-1], shape=g['shape'][:-1])      # one dimension less
    elif how == 'nan' and nd:
        k = rng.randrange(nd)
        if g['edges'][k]:
            g['edges'][k][rng.randrange(len(g['edges'][k]))] = 'nan'
    elif how == 'shape' and nd:
        # the same bins read as centres instead of edges (or the reverse): another shape
        k = rng.randrange(nd)
        s, n = g['shape'][k], len(g['edges'][k])
        if n == s + 1:
            g['shape'][k] = n
        elif n == s and s >= 2:
            g['shape'][k] = s - 1
    elif how == 'nobins':
        g = dict(names=[], edges=[], shape=rng.choice([g['shape'], [1] * len(g['shape']), [], [1]]))
    return g


def _valid_geom(g):
    """Dataset accepts it: no bins at all, or one bins array per dimension holding s or s + 1 numbers (or none)."""
    if not g['names']:
        return True
    return len(g['names']) == len(g['shape']) and len(set(g['names'])) == len(g['names']) and \
        all(len(e) in (0, s, s + 1) for e, s in zip(g['edges'], g['shape']))


def _gen_data_case(rng, grid, vden, cid):
    shape = rng.choice(SHAPES)
    gref = _gen_geom(rng, shape)
    if rng.random() < 0.06 and gref['names']:
        k = rng.randrange(len(gref['names']))
        if gref['edges'][k]:
            gref['edges'][k][0] = 'nan'
    n = ncells(shape)
    kind = rng.choice(['equal', 'close', 'close', 'far', 'special', 'boundary'])
    lim = 400 if max(d for _, d in grid) <= 1000 else 40

    def cell():
        if kind == 'special' and rng.random() < 0.3:
            return rng.choice(['nan', 'inf', '-inf'])
        if kind == 'far':
            return rng.randint(-lim, lim)
        return rng.randint(-24, 24)
    ref = [cell() for _ in range(n)]

    def other_val(v):
        if isinstance(v, str):
            return v if rng.random() < 0.6 else rng.choice(['nan', 'inf', '-inf', 0, 3])
        if kind == 'equal' or rng.random() < 0.4:
            return v
        if kind == 'far':
            return rng.randint(-lim, lim)
        if kind == 'special' and rng.random() < 0.2:
            return rng.choice(['nan', 'inf', '-inf'])
        return v + rng.choice([1, -1, 2, -3, 4, vden, -vden])
    nd = rng.choice([1, 1, 1, 2, 2, 3, 4])
    oth = []
    for _ in range(nd):
        g = gref if rng.random() < 0.8 else _perturb_geom(rng, gref)
        if not _valid_geom(g):
            g = gref
        m = ncells(g['shape'])
        vals = [other_val(ref[k % n]) for k in range(m)]
        oth.append(dict(names=list(g['names']), edges=[list(e) for e in g['edges']], shape=list(g['shape']), val=vals))
    if kind == 'boundary':
        # move reference cells onto the boundary of a pair of the grid: a = b +- (atol + rtol |b|)
        for k in range(n):
            b = oth[0]['val'][k % len(oth[0]['val'])]
            if isinstance(b, str) or isinstance(ref[k], str):
                continue
            (rn, rd), (an, ad) = rng.choice(grid), rng.choice(grid)
            t = an * rd * vden + rn * abs(b) * ad
            if t % (ad * rd) == 0 and abs(t // (ad * rd)) <= lim:
                ref[k] = b + rng.choice([1, -1]) * (t // (ad * rd)) + rng.choice([0, 0, 0, 1, -1])
    dyadic = all(d & (d - 1) == 0 for _, d in grid)
    layouts = ['C'] + {0: ['0d-array'], 1: ['S', 'R']}.get(len(shape), ['F', 'T', 'S', 'R'])
    case = dict(kind='data', id=cid, vden=vden, tols=[list(t) for t in grid],
                ref=dict(names=list(gref['names']), edges=[list(e) for e in gref['edges']], shape=list(shape), val=ref), oth=oth,
                layout=rng.choice(layouts), dtype=rng.choice(['float', 'float', 'int'] + (['float32'] if dyadic else [])),
                bins=rng.choice(['array', 'array', 'list', 'mixed']), err=[rng.choice([0, 1, 2, 'nan', 'inf']) for _ in range(nd + 1)])
    return case


def _gen_meta_case(rng, nk, cid):
    nd = rng.choice([1, 2, 2, 3, 3, 4])
    base = [rng.randint(0, 3) for _ in range(nk)]
    vals = []
    for _ in range(nd):
        row = list(base)
        if rng.random() < 0.5:
            for _ in range(rng.randint(1, 2)):
                row[rng.randrange(nk)] = rng.randint(0, 4)
        vals.append(row)
    excl = sorted(rng.sample(range(1, nk + 1), rng.choice([0, 0, 1, 1, 2])))
    case = dict(kind='meta', id=cid, vals=vals, excl=excl, keys=rng.randrange(2), pool=rng.randrange(2), dnames=rng.randrange(3))
    if default_exclude_applies(case) and rng.random() < 0.7:
        case['default_exclude'] = True
    return case


def data_json(case, obs):
    ds = lambda d: dict(names=list(d['names']), edges=[[tagged(e) for e in es] for es in d['edges']], shape=list(d['shape']),
                        val=[tagged(v) for v in d['val']])
    rec = dict(id=case['id'], ref=ds(case['ref']), oth=[ds(d) for d in case['oth']])
    rec.update({k: obs[k] for k in ('raised', 'apraised', 'shp', 'eq', 'eqv', 'ap', 'apv', 'swap', 'revraised', 'rev', 'eq2', 'unmod', 'listed')})
    return rec


def meta_json(case, obs):
    rec = dict(id=case['id'], vals=case['vals'], excl=case['excl'])
    rec.update({k: obs[k] for k in ('raised', 'verdict', 'perkey', 'byname', 'failed')})
    return rec


def run_trace(wd, name, vden, grid, nkeys, data, meta, invariants=TRACE_INVS, timeout=1500):
    cj = tlc.json_dump(os.path.join(wd, 'cases_%s.json' % name),
                       dict(vden=vden, tols=[list(t) for t in grid], nkeys=nkeys, data=data, meta=meta))
    oj = os.path.join(wd, 'out_%s.json' % name)
    cfg = tlc.write_cfg(os.path.join(wd, 'trace_%s.cfg' % name), spec='TSpec', constants=dict(MVS), invariants=invariants,
                        deadlock=False, postcondition='Post')
    res = tlc.run(TRACE, cfg, workers=1, env=dict(JVM_ENV, VERIF_CASES=cj, VERIF_OUT=oj), coverage=False, timeout=timeout)
    if not res.ok:
        raise tlc.MachineryError('EqualTrace %s: %s\n%s' % (name, res.violation, res.out[-2000:]))
    with open(oj) as f:
        return res, json.load(f)


def _observe_batch(args):
    cases, wd = args
    out = []
    data = [c for c in cases if c['kind'] == 'data']
    try:
        listed = observe_listed_by_task(data, wd) if data else []
    except Exception:  # pylint: disable=broad-except
        listed = None
    k = 0
    for c in cases:
        if c['kind'] == 'data':
            obs = observe_data(c)
            direct = obs['listed']
            if listed is None:
                obs['listed'] = 4                            # the EvalTestTask lost or reordered results
            elif listed[k] != direct:
                obs['listed'] = 5                            # task and direct evaluation disagree
            k += 1
        else:
            obs = observe_meta(c)
        out.append((c, obs))
    return out


# ---------------------------------------------------------------------------------------------------------

def print_summary(module, name, observations, strip=''):
    """The ONE line an extra module prints per run (nothing when there is nothing to observe): the classes with their counts,
    most frequent first, at most 300 characters.  Count and smallest example of every class stay in the evidence
    (ctx.cov[name]['observations'])."""
    if not observations:
        return
    try:
        '\u2014\u2026'.encode(getattr(sys.stdout, 'encoding', None) or 'ascii')
        dash, dots = '\u2014', '\u2026'
    except (UnicodeError, LookupError):
        dash, dots = '--', '...'
    head = 'OBSERVATION (%s, outside the listed properties) %d classes, %d cases: ' % (
        module, len(observations), sum(v['count'] for v in observations.values()))
    tail = ' %s details in evidence coverage.%s.observations' % (dash, name)
    items = ['%s (%d)' % (k[len(strip):] if strip and k.startswith(strip) else k, v['count'])
             for k, v in sorted(observations.items(), key=lambda kv: (-kv[1]['count'], kv[0]))]
    room = 300 - len(head) - len(tail)
    shown = []
    for n, item in enumerate(items):
        if len(', '.join(shown + [item])) + (len(dots) + 2 if n + 1 < len(items) else 0) > room:
            shown.append(dots)
            break
        shown.append(item)
    print(head + ', '.join(shown) + tail)


class Notes:
    """Observation classes with their smallest example."""
    def __init__(self):
        self.obs = {}

    def add(self, clause, detail, case, seen, source):
        key = 'Equal/%s%s' % (clause, '/' + detail if detail else '')
        cur = self.obs.get(key)
        size = size_of(case)
        if cur is None:
            cur = self.obs[key] = dict(count=0, example=None, size=None)
        cur['count'] += 1
        if cur['size'] is None or size < cur['size']:
            cur['size'] = size
            cur['example'] = dict(case={k: v for k, v in case.items() if k != 'id'}, observed=seen, source=source)

    def report(self):
        out = {key: dict(count=v['count'], example=v['example']) for key, v in sorted(self.obs.items())}
        print_summary('Equal', 'equal', out, strip='Equal/')
        return out


def run(ctx, wd):
    import logging
    import valjean.gavroche.test  # noqa: F401  pylint: disable=unused-import,import-outside-toplevel
    previous = logging.root.manager.disable
    logging.disable(logging.CRITICAL)                       # actually_eval_test logs every refused comparison
    try:
        return _run(ctx, wd)
    finally:
        logging.disable(previous)


def _run(ctx, wd):
    notes = Notes()
    distinct = set()
    cov = dict(states_replayed=0, evaluations=0, random_cases=0, band_not_judged=0, nan_edges_not_judged=dict(cases=0, refused=0, compared=0),
               metadata_reference=dict(first_given=0, first_by_name=0, ambiguous=0), tlc=[])
    quick = ctx.quick
    geoms_q = [g for g in GEOMS if not (quick and g in ('xy22', 'yx22', 'xz22'))]
    # (name, constants, tolerances, vden): exhaustive configurations
    data_runs = [
        ('cell1', data_consts(FULL_V, ctx.pick([1, 'nan'], [0, 1, 'nan']), ['e1', 'nb0'], [], True, 1, T5, 2), T5, 2),
        ('cell2', data_consts(ctx.pick([-1, 0, 1, 2, 'nan', 'inf'], [-2, -1, 0, 1, 2, 'nan', 'inf', '-inf']), [1], ['e2'], [], True, 1,
                              ctx.pick(T3, T5), 1), ctx.pick(T3, T5), 1),
        ('cell3', data_consts(ctx.pick([0, 1, 'nan'], [-1, 0, 1, 'nan', 'inf']), [1], ['c3'], [], True, 1, T3, 1), T3, 1),
        ('cell4', data_consts(ctx.pick([0, 1], [0, 3, 'nan']), [1], ['xy22'], [], True, 1, ctx.pick(T3, T4), 2), ctx.pick(T3, T4), 2),
        ('multi', data_consts([0, 1, 2, 'nan', 'inf'], [1], ['e1'], [], True, 3, T3, 1), T3, 1),
        ('multi2', data_consts([0, 1, 'nan'], [1], ['xy'], [], True, ctx.pick(2, 3), T3, 1), T3, 1),
        ('bins', data_consts([0, 1], [1], geoms_q, geoms_q, False, 1, ctx.pick([(0, 1), (1, 1)], T3), 1), ctx.pick([(0, 1), (1, 1)], T3), 1),
        ('bins2', data_consts([0, 1], [1], ['e2', 'n2'], ['e2', 'e2b', 'c3', 'n2'] + ctx.pick([], ['e1', 'y2']), False, 2,
                              [(0, 1), (1, 1)], 1), [(0, 1), (1, 1)], 1),
    ]
    if not quick:
        data_runs.append(('multi3', data_consts([0, 2, 'inf'], [1], ['e2'], [], True, 3, T4, 2), T4, 2))
    meta_runs = [('meta3', meta_consts(2, ctx.pick(2, 3), 3))] + ctx.pick([], [('meta2', meta_consts(3, 2, 2))])
    value_w = ['W_Asymmetric', 'W_CloseNotEqual', 'W_TolMatters', 'W_InfClose', 'W_NaNFails', 'W_Boundary', 'W_Band', 'W_MixedVerdicts']
    probes = [('probe_values', data_consts([0, 1, 2, 3, 'nan', 'inf'], [1], ['e1'], [], True, 2, [(0, 1), (1, 3), (1, 2), (1, 1)], 1),
               DATA_INVS, value_w),
              ('probe_bins', data_consts([0], [1], ['e2', 'n2', 'xy', 'nb1'], ['e2', 'e2b', 'c3', 'n2', 'yx', 'nb0'], False, 2, [(0, 1), (1, 1)], 1),
               DATA_INVS, [w for w in DATA_WITNESSES if w not in value_w]),
              ('probe_meta', meta_consts(2, 2, 2), META_INVS, META_WITNESSES)]
    probe_wrong = ('wrong', data_consts([-2, -1, 0, 1, 2], [1], ['e1'], [], True, 1, T3, 1, relside='ref'), T3, 1)

    def launch(job):
        kind, name, (consts, defs) = job[0], job[1], job[2]
        if kind == 'probe':
            return run_model(wd, name, consts, defs, job[3], witnesses=job[4], coverage=False)
        return run_model(wd, name, consts, defs, job[3], dump=os.path.join(wd, name), workers=ctx.pick(3, 6), coverage=name in ('cell4', 'bins2'))
    jobs = [('dump', n, c, DATA_INVS) for n, c, _, _ in data_runs] + [('dump', n, c, META_INVS) for n, c in meta_runs]
    jobs += [('probe',) + p for p in probes] + [('dump', probe_wrong[0], probe_wrong[1], [])]
    _tick('start')
    with ThreadPoolExecutor(max_workers=ctx.pick(6, 8)) as ex:
        results = list(ex.map(launch, jobs))
    _tick('TLC: ' + ', '.join('%s %.0fs/%d' % (j[1], r.wall, r.distinct) for j, r in zip(jobs, results)))
    for job, res in zip(jobs, results):
        ctx.tlc(res, 'Equal/' + job[1])
        cov['tlc'].append(dict(name=job[1], states=res.distinct, wall_s=round(res.wall, 1)))
        if res.coverage:
            tlc.check_coverage(res, ['Eval'], 'Equal/' + job[1])

    # ---- spec -> code: datasets
    for name, _, tols, vden in data_runs:
        blocks = done_blocks(os.path.join(wd, name))
        res = results[[j[1] for j in jobs].index(name)]
        if not blocks or 2 * len(blocks) != res.distinct:
            raise tlc.MachineryError('Equal.tla %s: %d evaluated states for %d states' % (name, len(blocks), res.distinct))
        for r in run_parallel(_replay_data, [(c, vden, tols) for c in chunked(blocks, 3 * NPROC)]):
            cov['states_replayed'] += r['n']
            cov['evaluations'] += r['evals']
            cov['band_not_judged'] += r['band']
            for k, f in zip(('cases', 'refused', 'compared'), r['free']):
                cov['nan_edges_not_judged'][k] += f
            distinct.update((name,) + key for key in r['distinct'])
            for clause, detail, case, seen in r['bad']:
                notes.add(clause, detail, case, seen, 'state of Equal.tla (%s)' % name)
        _tick('replayed %s: %d states' % (name, len(blocks)))
    # ---- spec -> code: metadata
    for name, _ in meta_runs:
        blocks = done_blocks(os.path.join(wd, name))
        res = results[[j[1] for j in jobs].index(name)]
        if not blocks or 2 * len(blocks) != res.distinct:
            raise tlc.MachineryError('Equal.tla %s: %d evaluated states for %d states' % (name, len(blocks), res.distinct))
        for r in run_parallel(_replay_meta, chunked(blocks, 2 * NPROC)):
            cov['states_replayed'] += r['n']
            cov['evaluations'] += r['evals']
            for k, v in r['refs'].items():
                cov['metadata_reference'][k] += v
            distinct.update((name,) + key for key in r['distinct'])
            for clause, detail, case, seen in r['bad']:
                notes.add(clause, detail, case, seen, 'state of Equal.tla (%s)' % name)
        _tick('replayed %s: %d states' % (name, len(blocks)))
    # ---- negative self-test 1: a deliberately wrong model (relative tolerance scaled by the reference) must disagree
    wrong = Notes()
    for r in [_replay_data((done_blocks(os.path.join(wd, 'wrong')), probe_wrong[3], probe_wrong[2]))]:
        for clause, detail, case, seen in r['bad']:
            wrong.add(clause, detail, case, seen, 'wrong model')
    cov['selftest_wrong_model'] = {k: v['count'] for k, v in wrong.obs.items()}
    # (when the code itself scales rtol by the reference, it is the documented model that disagrees: observed above)
    if not any(k.startswith('Equal/approx-array') for k in list(wrong.obs) + list(notes.obs)):
        raise tlc.MachineryError('self-test: both Equal.tla and its variant with rtol scaled by the reference agree with the code '
                                 'on every state: the binding does not see the approximate comparison')

    # ---- code -> spec
    rng = ctx.rng
    nbatch = ctx.pick(5, 15)
    per = ctx.pick(160, 900)
    batches = []
    cid = 0
    for b in range(nbatch):
        grid = TRACE_GRIDS[b % len(TRACE_GRIDS)]
        vden = [4, 1, 2, 8, 1][b % 5]
        cases = []
        for _ in range(per):
            cid += 1
            cases.append(_gen_data_case(rng, grid, vden, cid))
        for _ in range(per // 2):
            cid += 1
            cases.append(_gen_meta_case(rng, 3, cid))
        batches.append((grid, vden, cases))
    observed = []
    for (grid, vden, cases) in batches:
        parts = run_parallel(_observe_batch, [(c, wd) for c in chunked(cases, NPROC)])
        observed.append([x for p in parts for x in p])
    _tick('observed %d random cases' % cid)
    by_id = {c['id']: (c, o) for obs in observed for c, o in obs}

    def validate(k):
        grid, vden, _ = batches[k]
        data = [data_json(c, o) for c, o in observed[k] if c['kind'] == 'data']
        meta = [meta_json(c, o) for c, o in observed[k] if c['kind'] == 'meta']
        return run_trace(wd, 'b%d' % k, vden, grid, 3, data, meta)
    with ThreadPoolExecutor(max_workers=ctx.pick(6, 8)) as ex:
        outs = list(ex.map(validate, range(nbatch)))
    _tick('trace validation: ' + ', '.join('%.0fs' % r.wall for r, _ in outs))
    # negative self-test 2: corrupted fields of records that TLC accepted must be rejected by TLC
    flagged = {b[0] for _, out in outs for b in out['bad']} | {f for _, out in outs for f in out['free']}
    plain = lambda c: all((d['names'], d['edges'], d['shape']) == (c['ref']['names'], c['ref']['edges'], c['ref']['shape']) for d in c['oth'])
    clean = [(c, o) for c, o in observed[0] if c['kind'] == 'data' and c['id'] not in flagged and plain(c) and not o['raised']
             and not o['apraised'] and o['eq'] and o['eq'][0]][:40]
    cleanm = [(c, o) for c, o in observed[0] if c['kind'] == 'meta' and c['id'] not in flagged and not o['raised']][:10]
    data, meta, expect = [], [], {}
    for n, (c, o) in enumerate(clean):
        o2 = json.loads(json.dumps(o))
        what = ['equal-array', 'approx-array', 'equal-verdict', 'evaluated-twice', 'result-list'][n % 5]
        if what == 'equal-array':
            o2['eq'][0][0] = not o2['eq'][0][0]
        elif what == 'approx-array':
            o2['ap'][0][0][0][0] = not o2['ap'][0][0][0][0]
        elif what == 'equal-verdict':
            o2['eqv'] = not o2['eqv']
        elif what == 'evaluated-twice':
            o2['eq2'][0][0] = not o2['eq2'][0][0]
        else:
            o2['listed'] = 2
        data.append(data_json(c, o2))
        expect[c['id']] = what
    for c, o in cleanm:
        meta.append(meta_json(c, dict(o, verdict=not o['verdict'])))
        expect[c['id']] = 'metadata-verdict'
    if len(clean) < 5 or len(cleanm) < 2:
        cov['selftest_corrupted'] = 'skipped: only %d + %d records agree with Equal.tla' % (len(clean), len(cleanm))
    else:
        cres, cout = run_trace(wd, 'corrupt', batches[0][1], batches[0][0], 3, data, meta, invariants=[])
        got = {}
        for b in cout['bad']:
            got.setdefault(b[0], set()).add(b[1])
        missed = [(i, w) for i, w in expect.items() if w not in got.get(i, ())]
        cov['selftest_corrupted'] = dict(records=len(expect), rejected=len(expect) - len(missed))
        if missed:
            raise tlc.MachineryError('self-test: %d of %d corrupted records accepted by EqualTrace.tla, e.g. %s' % (len(missed), len(expect), missed[:3]))
        ctx.tlc(cres, 'EqualTrace/corrupted')
        _tick('corrupted records')
    for k, (res, out) in enumerate(outs):
        ctx.tlc(res, 'EqualTrace/batch%d' % k)
        cov['tlc'].append(dict(name='trace%d' % k, states=res.distinct, wall_s=round(res.wall, 1)))
        cov['random_cases'] += len(observed[k])
        cov['band_not_judged'] += int(out['band'])
        for cid_ in out['free']:
            cov['nan_edges_not_judged']['cases'] += 1
            cov['nan_edges_not_judged']['compared' if by_id[cid_][1]['raised'] == 0 else 'refused'] += 1
        for cid_, clause, detail in sorted(out['bad']):
            c, o = by_id[cid_]
            notes.add(clause, detail, c, _brief(o), 'random case')
    ctx.count(evaluations=cov['evaluations'] + cov['random_cases'], traces=cov['states_replayed'] + cov['random_cases'])
    cov['distinct_outcomes'] = len(distinct)
    cov['samples'] = [dict(case=c, observed=_brief(o)) for c, o in observed[0][:2]]
    cov['observations'] = notes.report()
    ctx.cov['equal'] = cov
    cov['rule'] = ('Equal (extra module): every evaluated state of Equal.tla (cells over small integers / halves, NaN, +-inf x 1-3 compared '
             'datasets x every pair of a library of 16 geometries; 1-3 metadata dictionaries x 2-3 keys x exclusions) replayed on '
             'real Datasets / TestEqual / TestApproxEqual over the whole tolerance grid / TestMetadata; seeded random larger cases judged '
             'by TLC through EqualTrace.tla; disagreements are observations.')
    return cov
