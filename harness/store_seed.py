"""store_seed.py <pid> <worktree> <slug> <round> <verdict: caught|missed-then-caught|...> <change> <needs> <detection>
Copies seed.diff / demo.py of a seeding agent's worktree to seeded/<pid>-r<round>-<slug>/ and writes meta.json."""
import json, os, shutil, subprocess, sys
pid, wt, slug, rnd, verdict, change, needs, detection = sys.argv[1:9]
d = '/verif/seeded/%s-r%s-%s' % (pid, rnd, slug)
os.makedirs(d, exist_ok=True)
diff = subprocess.run(['git', '-C', wt, 'diff', '--', 'valjean'], capture_output=True, text=True, check=True).stdout
assert diff.strip(), 'empty diff'
open(d + '/patch.diff', 'w').write(diff)
shutil.copy(wt + '/demo.py', d + '/demo.py')
base = subprocess.run(['git', '-C', wt, 'rev-parse', '--short', 'HEAD'], capture_output=True, text=True).stdout.strip()
meta = dict(property=pid, round=int(rnd), change=change, needs_to_manifest=needs,
            author='independent sub-agent (fifth round: told the four earlier changes and the dimensions varied by now, pointed elsewhere)',
            confirmed=dict(demo='exit 1 with the change, exit 0 without (harness/eval_seed.sh)', tests='sub-agent: whole suite, baseline failures only'),
            ran='VERIF_REPO=<worktree> ./check %s --no-evidence' % pid, verdict=verdict, detection=detection, written_on=base)
if len(sys.argv) > 9:
    meta['checks'] = sys.argv[9].split(',')
json.dump(meta, open(d + '/meta.json', 'w'), indent=1)
print('stored', d)
