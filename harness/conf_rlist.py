"""RList.tla <-> valjean.cosette.rlist.RList (extra module, run as part of C16: DepGraph keeps its nodes in an RList).

RList is not one of the listed properties: a disagreement between the real class and RList.tla is reported as an
OBSERVATION (recorded in the evidence of C16, exit code unaffected), never as a VIOLATION.
spec -> code : every history TLC enumerates (all histories up to MaxOps operations over a small alphabet, negative and
               out-of-range indices included) is replayed on a real RList, by identity and by value keys.
code -> spec : seeded random longer histories with the look-up answers recorded after every operation, judged by TLC
               through RListTrace.tla.
"""
import json
import os
import sys

import tlc

SPEC = os.path.join(tlc.SPECS, 'RList.tla')
TRACE = os.path.join(tlc.SPECS, 'RListTrace.tla')


class Obj:
    """Elements for the identity-keyed mode: one object per letter (the same object can occur several times)."""
    def __init__(self, name):
        self.name = name

    def __repr__(self):
        return self.name


def make(init, mode):
    from valjean.cosette.rlist import RList
    if mode == 'id':
        pool = {}
        conv = lambda v: pool.setdefault(v, Obj(v))
        lst = RList([conv(v) for v in init])
        name = lambda x: x.name
    else:
        conv = lambda v: v
        lst = RList(list(init), key=lambda x: x)
        name = lambda x: x
    return lst, conv, name


def apply(lst, conv, e):
    """Returns True if the operation raised IndexError."""
    try:
        if e['op'] in ('set', 'setbad'):
            lst[e['i']] = conv(e['v'] or 'a')
        elif e['op'] == 'del':
            del lst[e['i']]
        elif e['op'] == 'insert':
            lst.insert(e['i'], conv(e['v']))
        elif e['op'] == 'append':
            lst.append(conv(e['v']))
        elif e['op'] == 'swap':
            lst.swap(e['i'], e['j'])
    except IndexError:
        return 'IndexError'
    except Exception as ex:  # pylint: disable=broad-except
        return type(ex).__name__
    return ''


def observe(lst, conv, name, vals, rng=None):
    try:
        content = [name(x) for x in lst]
    except Exception:  # pylint: disable=broad-except
        content = ['?']
    pos = []
    for v in vals:
        o = conv(v)
        # a look-up that raises anything but the documented exception shows as -99 (the model never produces it)
        try:
            at = sorted(int(i) for i in lst.indices(o))
        except KeyError:
            at = []
        except Exception:  # pylint: disable=broad-except
            at = [-99]
        try:
            ind = int(lst.index(o))
        except ValueError:
            ind = -1
        except Exception:  # pylint: disable=broad-except
            ind = -99
        try:
            isin = bool(o in lst)
        except Exception:  # pylint: disable=broad-except
            isin = False
        try:
            gi = int(lst.get_index(o, -1))
        except Exception:  # pylint: disable=broad-except
            gi = -99
        pos.append(dict(v=v, at=at, isin=isin, index=ind, getindex=gi))
    windows = []
    if rng is not None:
        for _ in range(2):
            v = rng.choice(vals)
            start = rng.randint(0, max(0, len(content)))
            stop = rng.randint(start, max(start, len(content)))
            try:
                ind = int(lst.index(conv(v), start, stop))
            except ValueError:
                ind = -1
            except Exception:  # pylint: disable=broad-except
                ind = -99
            windows.append(dict(v=v, start=start, stop=stop, index=ind))
    if not windows:
        windows = [dict(v=vals[0], start=0, stop=len(content), index=pos[0]['index'])]
    return dict(content=content, positions=pos, windows=windows, len=len(lst), raised=False)


def run_history(init, events, vals, mode, rng=None):
    lst, conv, name = make(init, mode)
    out = []
    for e in events:
        e = dict(e)
        if e['op'] == 'setbad':
            e['op'] = 'set'
            e['v'] = e.get('v') or vals[0]
        raised = apply(lst, conv, e)
        obs = observe(lst, conv, name, vals, rng)
        obs['raised'] = bool(raised)
        obs['exc'] = raised
        out.append(dict(op=e['op'], i=e.get('i', 0), j=e.get('j', 0), v=e.get('v') or '', obs=obs))
    return out


def judge(ctx, wd, traces, vals, tag):
    tj = tlc.json_dump(os.path.join(wd, 'rl_%s.json' % tag), traces)
    oj = os.path.join(wd, 'rl_%s_out.json' % tag)
    cfg = tlc.write_cfg(os.path.join(wd, 'rl_%s.cfg' % tag), spec='TSpec',
                        constants={'Vals': frozenset(vals), 'MaxLen': 100, 'MaxOps': 100}, deadlock=False, postcondition='Post')
    res = tlc.run(TRACE, cfg, workers=1, coverage=False, env=dict(VERIF_TRACES=tj, VERIF_OUT=oj), timeout=1500)
    ctx.tlc(res, 'RListTrace/' + tag)
    if not res.ok:
        raise tlc.MachineryError('RListTrace %s: %s\n%s' % (tag, res.violation, res.out[-1500:]))
    with open(oj) as f:
        out = json.load(f)
    for tr, r in zip(traces, out['reached']):
        if r != len(tr['events']) + 1:
            raise tlc.MachineryError('RListTrace did not consume a history')
    failing = [list(f) for f in out['failing']]
    for tr, fl in zip(traces, failing):
        for k, e in enumerate(tr['events'], 1):
            if e['obs']['exc'] not in ('', 'IndexError'):
                fl.append([k, 'raises-%s-instead-of-IndexError' % e['obs']['exc']])
    return failing


def F(x):
    return [x[k] for k in sorted(x)] if isinstance(x, dict) else list(x)


def print_summary(module, name, observations, strip=''):
    """The ONE line an extra module prints per run (nothing when there is nothing to observe): the classes with their counts,
    most frequent first, at most 300 characters.  Count and smallest example of every class stay in the evidence
    (ctx.cov[name]['observations'])."""
    if not observations:
        return
    try:
        '\u2014\u2026'.encode(getattr(sys.stdout, 'encoding', None) or 'ascii')
        dash, dots = '\u2014', '\u2026'
    except (UnicodeError, LookupError):
        dash, dots = '--', '...'
    head = 'OBSERVATION (%s, outside the listed properties) %d classes, %d cases: ' % (
        module, len(observations), sum(v['count'] for v in observations.values()))
    tail = ' %s details in evidence coverage.%s.observations' % (dash, name)
    items = ['%s (%d)' % (k[len(strip):] if strip and k.startswith(strip) else k, v['count'])
             for k, v in sorted(observations.items(), key=lambda kv: (-kv[1]['count'], kv[0]))]
    room = 300 - len(head) - len(tail)
    shown = []
    for n, item in enumerate(items):
        if len(', '.join(shown + [item])) + (len(dots) + 2 if n + 1 < len(items) else 0) > room:
            shown.append(dots)
            break
        shown.append(item)
    print(head + ', '.join(shown) + tail)


def run(ctx, wd):
    observations = {}

    def note(clause, mode, tr, step):
        key = 'RList/%s/%s-key' % (clause, mode)
        if key not in observations:
            ev = tr['events'][step - 1]
            observations[key] = dict(count=0, example=dict(init=tr['init'], ops=[dict(op=e['op'], i=e['i'], j=e['j'], v=e['v']) for e in tr['events'][:step]],
                                                            observed={k: ev['obs'][k] for k in ('content', 'positions', 'windows', 'raised')}))
        observations[key]['count'] += 1

    vals = ['a', 'b']
    consts = {'Vals': frozenset(vals), 'MaxLen': 3, 'MaxOps': ctx.pick(2, 3)}
    cfg = tlc.write_cfg(os.path.join(wd, 'rlist.cfg'), constants=consts, invariants=['TypeOK'], deadlock=False)
    dump = os.path.join(wd, 'rlist')
    res = tlc.run(SPEC, cfg, dump=dump, timeout=1500)
    ctx.tlc(res, 'RList/histories')
    if not res.ok:
        raise tlc.MachineryError('RList.tla: %s' % (res.violation,))
    tlc.check_coverage(res, ['Set', 'Del', 'Insert', 'Appendv', 'Swap', 'Bad'], 'RList')
    for wit in ('W_Duplicates', 'W_NegIndex', 'W_Full'):
        c2 = tlc.write_cfg(os.path.join(wd, wit + '.cfg'), constants=dict(consts, MaxOps=2), invariants=[wit], deadlock=False)
        if tlc.run(SPEC, c2, coverage=False).violation != ('invariant', wit):
            raise tlc.MachineryError('witness %s not reachable in RList.tla' % wit)
    # spec -> code: every maximal history; the init sequence is recovered by undoing nothing: TLC's Init is replayed as
    # the first elements of the history-free states, so histories are grouped by their own initial sequence
    traces = []
    nstates = 0
    for st in tlc.read_dump(dump):
        hist = F(st['hist'])
        if len(hist) != consts['MaxOps']:
            continue
        nstates += 1
        events = [dict(op=h['op'], i=h['i'], j=h['j'], v=h['v']) for h in hist]
        final = list(F(st['seq']))
        for init in ([], ['a'], ['b'], ['a', 'a'], ['a', 'b'], ['b', 'a'], ['b', 'b']):
            # which initial sequence this state came from is not in the state: find the ones that reproduce `seq` abstractly
            if _abstract(init, events) != final:
                continue
            for mode in ('id', 'value'):
                evs = run_history(init, events, vals, mode)
                if evs[-1]['obs']['content'] != final:
                    note('content', mode, dict(init=init, events=evs), len(evs))
                traces.append(dict(init=init, mode=mode, events=evs))
            break
    os.remove(dump + '.dump')
    ctx.count(evaluations=len(traces))
    step = 20000
    for k in range(0, len(traces), step):
        failing = judge(ctx, wd, traces[k:k + step], vals, 'enum%d' % k)
        for tr, fl in zip(traces[k:k + step], failing):
            for stp, clause in fl:
                note(clause, tr['mode'], tr, stp)
    ctx.count(traces=len(traces))
    # code -> spec: random longer histories
    rng = ctx.rng
    vals2 = ['a', 'b', 'c', 'd']
    rtraces = []
    for _ in range(ctx.pick(400, 5000)):
        init = [rng.choice(vals2) for _ in range(rng.randint(0, 4))]
        length = len(init)
        events = []
        for _ in range(rng.randint(3, 14)):
            op = rng.choice(['set', 'del', 'insert', 'insert', 'append', 'swap'])
            if length >= 7 and op in ('insert', 'append'):
                op = 'del'
            i = rng.randint(-length - 2, length + 1)
            j = rng.randint(-length - 1, length)
            e = dict(op=op, i=i, j=j, v=rng.choice(vals2))
            events.append(e)
            ok_i = -length <= i < length
            if op == 'del' and ok_i:
                length -= 1
            elif op in ('insert', 'append'):
                length += 1
        mode = rng.choice(['id', 'value'])
        rtraces.append(dict(init=init, mode=mode, events=run_history(init, events, vals2, mode, rng)))
    failing = judge(ctx, wd, rtraces, vals2, 'random')
    for tr, fl in zip(rtraces, failing):
        for stp, clause in fl:
            note(clause, tr['mode'], tr, stp)
    ctx.count(evaluations=len(rtraces), traces=len(rtraces))
    ctx.cov['rlist'] = dict(histories_enumerated=nstates, replays=len(traces), random_histories=len(rtraces),
                            observations={k: v for k, v in sorted(observations.items())})
    print_summary('RList', 'rlist', observations, strip='RList/')


def _abstract(init, events):
    """Plain-list semantics (Python list), only used to match a dumped state with its initial sequence."""
    s = list(init)
    for e in events:
        n = len(s)
        i = e['i'] + n if e['i'] < 0 else e['i']
        if e['op'] == 'set' and 0 <= i < n:
            s[i] = e['v']
        elif e['op'] == 'del' and 0 <= i < n:
            del s[i]
        elif e['op'] == 'insert':
            s.insert(min(n, max(0, i)), e['v'])
        elif e['op'] == 'append':
            s.append(e['v'])
        elif e['op'] == 'swap':
            j = e['j'] + n if e['j'] < 0 else e['j']
            if 0 <= i < n and 0 <= j < n:
                s[i], s[j] = s[j], s[i]
    return s
