"""C09 -- slicing / squeezing datasets: binding of specs/Slice.tla to valjean.eponine.dataset.

spec -> code : every state TLC dumps for the exhaustive configurations (all 1-d slices, small 2-d
               products, all squeeze shapes) is executed on a real Dataset and the projection is
               compared with the `out` TLC computed.
code -> spec : seeded random / hypothesis cases up to 4-d with out-of-range bounds are executed, the
               observed projection recorded, and the batch validated by TLC against SliceTrace.tla.
Every case is also run with the same numbers stored differently (STORES) and on a "lived-in" dataset that reached the state
of the case through assignments to its public attributes after construction (LIVED); the expectation stays that of the case.
"""
import json
import os
import random
from collections import OrderedDict

import numpy as np

import tlc
from tlc import Raw
from tlaval import MV

SPEC = os.path.join(tlc.SPECS, 'Slice.tla')
TRACE = os.path.join(tlc.SPECS, 'SliceTrace.tla')
INVS = ['WellFormed', 'Delimits', 'AgreesWithSet', 'SqueezeExact']


def _bound(x):
    return None if isinstance(x, MV) or x is None else int(x)


STORES = ('F', 'T', 'int', 'npidx', 'strided')

# "lived-in" datasets: `dims` always describes the dataset AS IT IS WHEN THE OPERATION IS APPLIED (that is what the statement
# quantifies over and what Slice.tla is evaluated on); `lived` says through which history of assignments to the public
# attributes (value, error, bins, name, what -- "attributes can be changed afterwards") it got there after construction:
#   'kind'     built with the OTHER kind of bins on every dimension (N+1 edges <-> N centres, other numbers), then
#              ds.bins[key] = <bins of the case> per dimension (what the documentation notebook does)
#   'values'   built with the same kind of bins but other numbers, then ds.bins[key] = ... per dimension
#   'inplace'  built with the same kinds, other numbers everywhere; the contents of ds.bins[key], ds.value, ds.error are
#              then overwritten in place (ds.value[...] = ...)
#   'attached' built without bins, then ds.bins = OrderedDict(<bins of the case>)
#   'rebound'  built with the other kind of bins, then the whole ds.bins replaced by a new OrderedDict
#   'arrays'   built with other numbers in value / error (same shape), then ds.value = ..., ds.error = ...
#   'meta'     name / what reassigned
# a case without bins (kind 'none', squeeze only) is, for the bins histories, built WITH bins that are then removed
# (ds.bins = OrderedDict() for 'attached' / 'rebound', ds.bins.clear() otherwise): key word 'removed'.
LIVED = ('kind', 'values', 'inplace', 'attached', 'rebound', 'arrays', 'meta')
_BINS_HISTORIES = ('kind', 'values', 'inplace', 'attached', 'rebound')


def _bins_of(dims, other_kind=False, other_numbers=False):
    bins = OrderedDict()
    for k, d in enumerate(dims):
        edges = (d['kind'] != 'centres') != other_kind          # 'none' counts as edges here (only used when built with bins)
        npos = d['n'] + 1 if edges else d['n']
        bins['b%d' % k] = 100.0 * (k + 1) + np.arange(npos, dtype=float) + (1000.0 if other_numbers else 0.0)
    return bins


def _lived_word(case):
    lived = case.get('lived')
    if lived in _BINS_HISTORIES and any(d['kind'] == 'none' for d in case['dims']):
        return 'removed'
    return lived


def build(dims, store=None, lived=None):
    """store: how the same numbers are laid out / typed -- None: C-contiguous float64; 'F': Fortran order; 'T': a
    transposed view; 'int': integer values (errors stay float); 'strided': every other element of a larger buffer;
    'npidx' only changes how the slice bounds are spelled (numpy integers).
    lived: history of public-attribute assignments between construction and the operation (see LIVED)."""
    from valjean.eponine.dataset import Dataset
    shape = tuple(d['n'] for d in dims)
    size = int(np.prod(shape))
    value = np.arange(size, dtype=float).reshape(shape)
    error = value + 0.5
    if store == 'F':
        value, error = np.asfortranarray(value), np.asfortranarray(error)
    elif store == 'T':
        value, error = np.ascontiguousarray(value.T).T, np.ascontiguousarray(error.T).T
    elif store == 'int':
        value = value.astype(np.int64)
    elif store == 'strided':
        big_v, big_e = np.zeros(shape[:-1] + (2 * shape[-1],)), np.zeros(shape[:-1] + (2 * shape[-1],))
        big_v[..., ::2], big_e[..., ::2] = value, error
        value, error = big_v[..., ::2], big_e[..., ::2]
    nobins = any(d['kind'] == 'none' for d in dims)
    bins = None if nobins else _bins_of(dims)
    if lived is None:
        return Dataset(value, error, bins=bins, name='ds', what='w')
    if lived not in LIVED:
        raise ValueError('unknown history %r' % (lived,))
    # state at construction: differs from the case in the aspect named by `lived`
    value0, error0, bins0, name0, what0 = value, error, bins, 'ds', 'w'
    if lived == 'arrays':       # the same cells in reversed order: other numbers, still a permutation of the cell indices
        value0, error0 = (size - 1) - value, (size - 1) - value + 0.5
    elif lived == 'inplace':    # same buffers (layout of `store` kept), reversed numbers written into them for the time being
        value, error = value.copy(), error.copy()
        value0[...] = (size - 1) - value
        error0[...] = (size - 1) - value + 0.5
    if lived in _BINS_HISTORIES:
        if nobins:
            bins0 = _bins_of(dims)
        elif lived == 'attached':
            bins0 = None
        else:
            bins0 = _bins_of(dims, other_kind=lived in ('kind', 'rebound'), other_numbers=True)
    if lived == 'meta':
        name0, what0 = 'before', 'w0'
    ds = Dataset(value0, error0, bins=bins0, name=name0, what=what0)
    # the life of the object: public attributes only
    if lived == 'arrays':
        ds.value, ds.error = value, error
    elif lived == 'inplace':
        ds.value[...] = value
        ds.error[...] = error
    if lived in _BINS_HISTORIES:
        if nobins:
            if lived in ('attached', 'rebound'):
                ds.bins = OrderedDict()
            else:
                ds.bins.clear()
        elif lived in ('attached', 'rebound'):
            ds.bins = OrderedDict(bins)
        elif lived == 'inplace':
            for key, arr in bins.items():
                ds.bins[key][...] = arr
        else:
            for key, arr in bins.items():
                ds.bins[key] = arr
    if lived == 'meta':
        ds.name, ds.what = 'ds', 'w'
    return ds


def digest(ds):
    return (ds.value.tobytes(), ds.error.tobytes(), ds.value.shape,
            tuple((k, v.tobytes()) for k, v in ds.bins.items()), ds.name, ds.what)


def _cells_per_dim(res_value, shape):
    """Recover, per dimension, the original cell indices kept (values are linear indices)."""
    flat = res_value.astype(int).ravel()
    if flat.size and (flat.min() < 0 or flat.max() >= int(np.prod(shape)) or not np.array_equal(flat, res_value.ravel())):
        return [], False          # numbers that are not cell indices of this dataset (stale / foreign array)
    idx = np.unravel_index(flat, shape)
    cells = []
    for k in range(len(shape)):
        cells.append(sorted(set(int(i) for i in idx[k])))
    rect = np.arange(int(np.prod(shape)), dtype=float).reshape(shape)[np.ix_(*cells)] if cells else None
    ok = rect is not None and rect.shape == res_value.shape and np.array_equal(rect, res_value)
    return cells, ok


def observe(case):
    """Run one case on the implementation; returns (obs, problem).  problem = None or text."""
    dims = case['dims']
    store = case.get('store')
    try:
        ds = build(dims, store, case.get('lived'))
    except Exception as ex:  # pylint: disable=broad-except
        if not case.get('lived'):
            raise
        return None, 'raised while the attributes were reassigned: %s: %s' % (type(ex).__name__, ex)
    before = digest(ds)
    shape = ds.value.shape
    try:
        if case['op'] == 'slice':
            # a unit step can be omitted or written out: same selection (d['step'] is None or 1, default None)
            npi = (lambda x: x if x is None else np.int64(x)) if store == 'npidx' else (lambda x: x)
            sl = tuple(slice(npi(_bound(d['a'])), npi(_bound(d['b'])), d.get('step')) for d in dims)
            res = ds[sl if len(sl) > 1 else sl[0]]
        else:
            res = ds.squeeze()
    except Exception as ex:  # pylint: disable=broad-except
        return None, 'raised %s: %s' % (type(ex).__name__, ex)
    if digest(ds) != before:
        return None, 'original dataset modified'
    if res.value.shape != res.error.shape:
        return None, 'value/error shapes differ'
    if not np.array_equal(res.error, res.value + 0.5):
        return None, 'errors do not belong to the selected values'
    if case['op'] == 'slice':
        if res.value.ndim != len(dims):
            return None, 'rank changed by slicing'
        if res.value.size == 0:
            return dict(empty=True, dims=[dict(cells=[], bins=[]) for _ in dims]), None
        cells, rect = _cells_per_dim(res.value, shape)
        if not rect:
            return None, 'result is not the rectangular selection of its cells'
        obs = []
        for k, d in enumerate(dims):
            key = 'b%d' % k
            if key not in res.bins:
                return None, 'bins of dimension %d lost' % k
            if list(res.bins) != list(ds.bins):
                return None, 'bin keys reordered'
            b = [int(round(float(x) - 100.0 * (k + 1))) for x in np.asarray(res.bins[key]).ravel()]
            obs.append(dict(cells=cells[k], bins=b))
        return dict(empty=False, dims=obs), None
    # squeeze
    kept = [k for k, d in enumerate(dims) if d['n'] != 1]
    if res.value.shape != tuple(dims[k]['n'] for k in kept):
        return None, 'squeezed shape %s' % (res.value.shape,)
    if not np.array_equal(res.value.ravel(), ds.value.ravel()):
        return None, 'squeezed values differ'
    obs = []
    has_bins = dims[0]['kind'] != 'none'
    keys = list(res.bins)
    if has_bins and keys != ['b%d' % k for k in kept] or (not has_bins and keys):
        return None, 'squeezed bins keys %s, expected those of dims %s' % (keys, kept)
    for k in kept:
        b = [int(round(float(x) - 100.0 * (k + 1))) for x in res.bins['b%d' % k]] if has_bins else []
        obs.append(dict(dim=k + 1, cells=list(range(dims[k]['n'])), bins=b))
    return dict(empty=False, dims=obs), None


def _cls(x, n):
    if x is None:
        return 'none'
    if x < -n:
        return 'under'
    if x < 0:
        return 'neg'
    if x == 0:
        return 'zero'
    return 'over' if x > n else 'pos'


def vkey(case, problem, exp=None, obs=None):
    """Finding class: operation + what went wrong + the classes of the offending dimensions only."""
    how = 'raise' if problem and problem.startswith('raised') else 'wrong'
    if case.get('store'):
        how += '/store-' + case['store']
    if case.get('lived'):
        how += '/lived-in-' + _lived_word(case)
    if case['op'] == 'squeeze':
        kinds = sorted(set(d['kind'] for d in case['dims']))
        return 'C09/squeeze/%s/%s' % ('+'.join(kinds), how)
    dims = case['dims']
    if case.get('lived') and how.startswith('raise'):
        # an exception on a lived-in dataset cannot be attributed to one dimension or bound: the class is the history and the
        # kinds of bins present (otherwise one key per combination of bound classes over all dimensions)
        return 'C09/slice/' + how + '/' + '+'.join(sorted(set(d['kind'] for d in dims)))
    if exp is not None and obs is not None and not obs.get('empty') and len(exp) == len(obs['dims']) == len(dims):
        off = [d for d, e, o in zip(dims, exp, obs['dims'])
               if list(e['cells']) != o['cells'] or (not e.get('binsFree', e.get('free')) and list(e['bins']) != o['bins'])]
        dims = off or dims
    bad = ['%s:start-%s:stop-%s%s' % (d['kind'], _cls(_bound(d['a']), d['n']), _cls(_bound(d['b']), d['n']),
                                      ':step-1' if d.get('step') == 1 else '') for d in dims]
    return 'C09/slice/' + how + '/' + '|'.join(sorted(set(bad)))


def expected_to_obs(state):
    """Projection of a TLC `out` value in the shape produced by observe()."""
    out = state['out']
    if state['op'] == 'slice':
        empty = any(len(o['cells']) == 0 for o in out)
        return dict(empty=empty, dims=[dict(cells=list(o['cells']), bins=list(o['bins']), free=bool(o['binsFree'])) for o in out])
    return dict(empty=False, dims=[dict(dim=o['dim'], cells=list(o['cells']), bins=list(o['bins'])) for o in out])


def agrees(exp, obs, op):
    if op == 'slice':
        if exp['empty'] or obs['empty']:
            return exp['empty'] == obs['empty']
        if len(exp['dims']) != len(obs['dims']):
            return False
        return all(e['cells'] == o['cells'] and (e['free'] or e['bins'] == o['bins'])
                   for e, o in zip(exp['dims'], obs['dims']))
    return exp['dims'] == obs['dims']


def case_of_state(st):
    return dict(op=st['op'], dims=[dict(n=d['n'], kind=d['kind'], a=_bound(d['a']), b=_bound(d['b'])) for d in st['dims']])


def replay_case(case):
    obs, problem = observe(case)
    if problem:
        return False, problem
    exp = py_expected(case)
    return agrees(exp, obs, case['op']), 'observed %s expected %s' % (obs, exp)


def py_expected(case):
    """Expected projection for replays only (TLC is the oracle in the checks): evaluates Slice.tla
    through TLC on the single case."""
    wd = tlc.workdir('c09r')
    cj = os.path.join(wd, 'case.json')
    with open(cj, 'w') as f:
        bogus = dict(empty=all(True for _ in ()) and False, dims=[dict(dim=0, cells=[-1], bins=[-1])])
        if case['op'] == 'slice':
            bogus = dict(empty=False, dims=[dict(cells=[-1], bins=[-1])] * (len(case['dims']) + 1))
            # an expected-empty selection matches only empty=True; send the opposite of what would match
        json.dump([_to_json_case(1, case, bogus)], f)
    cfg = tlc.write_cfg(os.path.join(wd, 't.cfg'), spec='TSpec', constants={'None': Raw('None')}, deadlock=False,
                        postcondition='Post')
    tlc.run(TRACE, cfg, workers=1, coverage=False, env=dict(VERIF_CASES=cj, VERIF_OUT=os.path.join(wd, 'o.json')))
    with open(os.path.join(wd, 'o.json')) as f:
        bad = json.load(f)['bad']
    e = bad[0][1]
    if case['op'] == 'slice':
        return dict(empty=any(len(o['cells']) == 0 for o in e),
                    dims=[dict(cells=o['cells'], bins=o['bins'], free=o['binsFree']) for o in e])
    return dict(empty=False, dims=[dict(dim=o['dim'], cells=o['cells'], bins=o['bins']) for o in e])


def _to_json_case(cid, case, obs):
    enc = lambda x: [] if x is None else [x]
    return dict(id=cid, op=case['op'],
                dims=[dict(n=d['n'], kind=d['kind'], a=enc(d['a']), b=enc(d['b'])) for d in case['dims']],
                empty=obs['empty'], obs=obs['dims'])


def _consts(max_n, max_b, max_dims, ops):
    return {'MaxN': max_n, 'MaxB': max_b, 'MaxDims': max_dims, 'Ops': frozenset(ops), 'None': Raw('None')}


def run_c09(ctx):
    ctx.rule('spec->code: every state dumped by TLC for Slice.tla (Init enumerates op x dims x start/stop incl. None and '
             'out-of-range; Eval computes kept cells and bin positions) is run on a real Dataset with distinct cell values '
             'and bin numbers; code->spec: seeded random cases up to 4-d validated by TLC against SliceTrace.tla. '
             'Every state is also run on a "lived-in" dataset: one that reached the state of the case through assignments to its public '
             'attributes after construction (bins replaced by the other kind / other numbers / attached later / removed, arrays replaced '
             'or overwritten in place, name/what changed; one history per state in rotation, 30% of the random cases). '
             'distinct_nontrivial counts distinct (op, per-dim n/kind/start-class/stop-class) cases that keep at least one '
             'cell (slice) or drop at least one dimension (squeeze).')
    ctx.assume('unit-step slices only; numbers are small integers (exact) stored as float64, C / Fortran order, transposed or strided views, or int64')
    wd = tlc.workdir('c09')
    configs = [('1d', _consts(ctx.pick(5, 6), ctx.pick(7, 9), 1, ['slice', 'squeeze'])),
               ('2d', _consts(2, ctx.pick(2, 3), 2, ['slice'])),
               ('squeeze', _consts(ctx.pick(2, 3), 0, ctx.pick(3, 4), ['squeeze']))]
    n_replayed = 0
    for name, consts in configs:
        cfg = tlc.write_cfg(os.path.join(wd, name + '.cfg'), constants=consts, invariants=INVS, deadlock=False)
        dump = os.path.join(wd, name)
        res = tlc.run(SPEC, cfg, dump=dump)
        ctx.tlc(res, 'Slice/' + name)
        if not res.ok:
            raise tlc.MachineryError('Slice.tla %s: %s' % (name, res.violation))
        tlc.check_coverage(res, ['Eval'], 'Slice/' + name)
        for st in tlc.read_dump(dump):
            if st['pc'] != 'done':
                continue
            case = case_of_state(st)
            n_replayed += 1
            exp = expected_to_obs(st)
            variants = [case]
            if case['op'] == 'slice':
                variants.append(dict(case, dims=[dict(d, step=1) for d in case['dims']]))
            # the same numbers laid out / typed differently (one more variant per state, in rotation)
            variants.append(dict(case, store=STORES[n_replayed % len(STORES)]))
            # the same dataset reached through a history of public-attribute assignments after construction (in rotation)
            variants.append(dict(case, lived=LIVED[n_replayed % len(LIVED)]))
            for vcase in variants:
                obs, problem = observe(vcase)
                if problem or not agrees(exp, obs, vcase['op']):
                    ctx.violation(vkey(vcase, problem, exp['dims'], obs), problem or 'observed %s, Slice.tla expects %s' % (obs, exp), vcase,
                                  module='conf_slice')
            nontrivial = (not exp['empty']) if case['op'] == 'slice' else len(exp['dims']) < len(case['dims'])
            if nontrivial:
                ctx.distinct((case['op'],) + tuple((d['n'], d['kind'], _cls(d['a'], d['n']), _cls(d['b'], d['n'])) for d in case['dims']))
            if n_replayed % 997 == 1:
                ctx.sample(dict(case=case, expected=exp, observed=obs))
        os.remove(dump + '.dump')
    # witnesses: the interesting corners must be reachable in the model (vacuity guard)
    for wit in ('W_NegStartEdges', 'W_SqueezeDrops'):
        cfg = tlc.write_cfg(os.path.join(wd, wit + '.cfg'), constants=_consts(3, 3, 2, ['slice', 'squeeze']),
                            invariants=[wit], deadlock=False)
        res = tlc.run(SPEC, cfg, coverage=False)
        if res.violation != ('invariant', wit):
            raise tlc.MachineryError('witness %s not reachable in Slice.tla' % wit)
    ctx.count(evaluations=n_replayed, traces=n_replayed)

    # code -> spec
    rng = ctx.rng
    lived_rng = random.Random(ctx.seed + 9)      # its own stream: the cases drawn from ctx.rng stay what they were
    cases = []
    n_random = ctx.pick(4000, 60000)
    for cid in range(1, n_random + 1):
        op = 'slice' if rng.random() < 0.8 else 'squeeze'
        nd = rng.randint(1, 4)
        if op == 'slice':
            dims = []
            big = rng.random() < 0.02            # a long first dimension: lengths around the small-integer cache of CPython (256) and beyond
            if big:
                nd = rng.randint(1, 2)
            for k in range(nd):
                n = rng.choice([255, 256, 257, 258, 300, 1000]) if big and k == 0 else rng.randint(1, 6 if not big else 3)
                dims.append(dict(n=n, kind=rng.choice(['edges', 'centres']),
                                 a=rng.choice([None] + list(range(-n - 2, n + 3))),
                                 b=rng.choice([None] + list(range(-n - 2, n + 3))), step=rng.choice([None, 1])))
        else:
            kind_none = rng.random() < 0.3
            dims = [dict(n=rng.choice([1, 1, 2, 3]), kind='none' if kind_none else rng.choice(['edges', 'centres']),
                         a=None, b=None) for _ in range(nd)]
        case = dict(op=op, dims=dims)
        if rng.random() < 0.4:
            case['store'] = rng.choice(STORES)
        if lived_rng.random() < 0.3:
            case['lived'] = lived_rng.choice(LIVED)
        obs, problem = observe(case)
        if problem:
            ctx.violation(vkey(case, problem), problem, case, module='conf_slice')
            continue
        cases.append((cid, case, obs))
    batch = [_to_json_case(cid, case, obs) for cid, case, obs in cases]
    # SliceTrace needs uniform records: squeeze obs carry `dim`, slice obs do not -> two batches
    total_bad = 0
    for opname in ('slice', 'squeeze'):
        sub = [c for c in batch if c['op'] == opname]
        if not sub:
            continue
        cj = tlc.json_dump(os.path.join(wd, 'cases_%s.json' % opname), sub)
        oj = os.path.join(wd, 'out_%s.json' % opname)
        cfg = tlc.write_cfg(os.path.join(wd, 'trace.cfg'), spec='TSpec', constants={'None': Raw('None')},
                            invariants=INVS, deadlock=False, postcondition='Post')
        res = tlc.run(TRACE, cfg, workers=1, env=dict(VERIF_CASES=cj, VERIF_OUT=oj), timeout=1800)
        ctx.tlc(res, 'SliceTrace/' + opname)
        if not res.ok:
            raise tlc.MachineryError('SliceTrace %s: %s\n%s' % (opname, res.violation, res.out[-1500:]))
        with open(oj) as f:
            bad = json.load(f)['bad']
        byid = {cid: (case, obs) for cid, case, obs in cases}
        for cid, exp in bad:
            case, obs = byid[cid]
            total_bad += 1
            ctx.violation(vkey(case, None, exp if case['op'] == 'slice' else None, obs), 'observed %s, Slice.tla expects %s' % (obs, exp), case, module='conf_slice')
        ctx.count(evaluations=len(sub), traces=len(sub))
    for cid, case, obs in cases[:2]:
        ctx.sample(dict(case=case, observed=obs, source='random'))
    ctx.cov['exhaustive'] = True
    ctx.cov['explanation'] = ('exhaustive for the TLC configurations listed in tlc_runs; random beyond them (%d cases, %d rejected by TLC)'
                              % (len(cases), total_bad))
