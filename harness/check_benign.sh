#!/bin/sh
# check_benign.sh [name-prefix ...] : apply every stored property-preserving refactoring (benign/*.diff, written by two audits,
# see DESIGN 10.4) in a scratch worktree of /repo and run the checks that were run against it.  Every check must exit 0.
# Prints one line per (diff, check): QUIET (exit 0) / ALARM (exit 1) / BROKEN (exit 2 or other) / SKIPPED (the diff no longer applies).
cd "$(dirname "$0")/.."
for f in benign/*.diff; do
  id=$(basename "$f" .diff)
  if [ $# -gt 0 ]; then m=0; for p in "$@"; do case "$id" in *"$p"*) m=1;; esac; done; [ $m -eq 1 ] || continue; fi
  checks=$(cat "benign/$id.checks" 2>/dev/null)
  [ -n "$checks" ] || continue
  wt=$(mktemp -d /tmp/benignwt-XXXXXX); rmdir "$wt"
  git -C /repo worktree add -q --detach "$wt" HEAD || { echo "BROKEN $id (worktree)"; continue; }
  if git -C "$wt" apply "$(pwd)/$f" 2>/dev/null; then
    for c in $checks; do
      VERIF_REPO="$wt" ./check "$c" --no-evidence > "/tmp/benignrun-$id-$c.log" 2>&1; rc=$?
      if [ $rc -eq 0 ]; then echo "QUIET $id $c"; elif [ $rc -eq 1 ]; then echo "ALARM $id $c"; else echo "BROKEN $id $c (exit $rc)"; fi
    done
  else
    echo "SKIPPED $id (does not apply to the current tree)"
  fi
  git -C /repo worktree remove --force "$wt"
done
