"""ParseLock.tla <-> valjean.eponine.tripoli4.parse.Parser used from several threads (extra module, run as part of C10).

The pyparsing grammar of Tripoli-4 listings is one module-level object whose Forward elements are re-bound by parse
actions during a parse; Parser._parse_listing_worker serialises parses with a module lock.  valjean parses listings in
the worker threads of its queue backend, so "the values printed are the values returned" (C10) rests on that lock.

The parser runs in real threads under the deterministic scheduler (detsched.py): `threading` is the controlled stand-in
while valjean.eponine.tripoli4 is imported, so whatever lock the module creates is a controlled one; the scheduling
points are the lock acquisition, every re-binding of grammar._otherdetails (Forward.__lshift__) and every read of that
binding (Forward.parseImpl) -- the three places ParseLock.tla has actions for.

code -> spec : every schedule (depth-first, bounded) of 2 and 3 threads parsing small listings whose REACTION responses
               print their details in different orders; the schedule, the bindings, the lock holder and the outcomes are
               validated by TLC against ParseLock (ParseLockTrace.tla, strict), and the outcomes are judged by the
               property-level clause (every listing read as when read alone).
spec -> code : behaviours TLC simulates for ParseLock (Locked = TRUE) are replayed as schedules; actions and outcomes compared.

Verdicts: a listing that comes out differently (or does not parse) when parsed beside another one is a C10 violation
(`C10/concurrent/...`, replayable: listings + schedule).  A schedule the model rejects while every outcome is right is
DRIFT.  Must run in a fresh process (the import of the parser is controlled): `run()` starts one.
"""
import json
import os
import subprocess
import sys

import tlc
from tlc import Raw

SPEC = os.path.join(tlc.SPECS, 'ParseLock.tla')
SPEC_MC = os.path.join(tlc.SPECS, 'ParseLockMC.tla')
TRACE = os.path.join(tlc.SPECS, 'ParseLockTrace.tla')
INVS = ['TypeOK', 'PL_Mutex', 'PL_AtMostOne', 'PL_Right', 'PL_Complete', 'PL_Released']
DET = {'n': ' reaction on nucleus : U235\n', 't': ' temperature : 300\n', 'c': ' composition : FUEL\n',
       'k': ' concentration : 1.000000e+00\n'}
ACTION = {'start': 'Begin', 'acq': 'Acquire', 'set': 'Set', 'use': 'Use'}


# ---------------------------------------------------------------------------------------------
# listings

def listing_text(orders, salt):
    """A one-edition listing with one REACTION response per entry of `orders` (strings over n t c k, 'r' implied last)
    and, so that a listing is never empty, one FLUX response without details."""
    import conf_t4doc as T
    resps = []
    for i, _o in enumerate(list(orders) + ['']):
        rows = [dict(a=1, b=2, vn=2 * (10 * salt + i) + 3, sn=5), dict(a=2, b=3, vn=2 * (10 * salt + i) + 7, sn=9)]
        sec = dict(timed=False, tmin=0, tmax=0, rows=rows, integ=dict(kind='yes', vn=2 * (salt + i) + 11, sn=3))
        resps.append(dict(fn=2 if i < len(orders) else 1, name=i + 1, zones=[dict(zid=3 + i, secs=[sec])]))
    txt = T.render([dict(batch=10, time=7, resps=resps)])
    parts = txt.split(' PARTICULE : NEUTRON \n')
    out = [parts[0]]
    for i, p in enumerate(parts[1:]):
        o = orders[i] if i < len(orders) else ''
        head = ' PARTICULE : NEUTRON \n'
        if o:
            head += '\n\n' + '\n'.join(DET[c] for c in o) + '\n reaction consists in tabulated data\n'
        out.append(head)
        out.append(p)
    return ''.join(out)


# ---------------------------------------------------------------------------------------------
# the controlled parser (worker process only)

class _Impl:
    """Everything that touches valjean; built once per worker process."""

    def __init__(self, scratch):
        import importlib
        import core
        core.use_repo()
        import detsched
        self.ds = detsched
        self.events = []
        impl = self

        class LoggedRLock(detsched.DetRLock):
            def acquire(self, blocking=True, timeout=-1):
                r = detsched.DetRLock.acquire(self, blocking, timeout)
                if self.count == 1:
                    impl.locks.add(self)
                return r
            __enter__ = acquire

        class LoggedLock(detsched.DetLock):
            def acquire(self, blocking=True, timeout=-1):
                r = detsched.DetLock.acquire(self, blocking, timeout)
                impl.locks.add(self)
                return r
            __enter__ = acquire
        self.locks = set()
        # third-party and unrelated modules first, with the real threading
        import numpy, pyparsing, logging            # noqa: E401,F401
        importlib.import_module('valjean.eponine.dataset')
        importlib.import_module('valjean.eponine.browser')
        for name in list(sys.modules):
            if name.startswith('valjean.eponine.tripoli4'):
                raise RuntimeError('%s imported before the controlled import' % name)
        th, _qm, _tm = detsched._fake_modules()     # pylint: disable=protected-access
        th.RLock, th.Lock = LoggedRLock, LoggedLock
        saved = sys.modules.get('threading')
        sys.modules['threading'] = th
        try:
            self.P = importlib.import_module('valjean.eponine.tripoli4.parse')
        finally:
            sys.modules['threading'] = saved
        # The Forward element that is re-bound during a parse is found structurally, not by its (private) name: it is the
        # one a parse action binds to an expression over the response details, which are recognised by their results
        # names (the metadata keys of the parsed responses, part of the parser's output format).
        known = {'reaction_on_nucleus': 'n', 'temperature': 't', 'composition': 'c', 'concentration': 'k', 'reaction': 'r'}
        self.targets = set()
        _ls, _pi = pyparsing.Forward.__lshift__, pyparsing.Forward.parseImpl

        def names_under(e, depth=0, seen=None):
            seen = set() if seen is None else seen
            if depth > 8 or id(e) in seen or not isinstance(e, pyparsing.ParserElement):
                return set()
            seen.add(id(e))
            out = set()
            rn = getattr(e, 'resultsName', None)
            if rn in known:
                return {known[rn]}
            for c in list(getattr(e, 'exprs', None) or []) + [getattr(e, 'expr', None)]:
                if c is not None:
                    out |= names_under(c, depth + 1, seen)
            return out

        def lshift(fwd, other):
            if impl.parsing:
                kinds = names_under(other)
                if kinds:
                    impl.targets.add(id(fwd))
                    excl = ''.join(sorted(set(known.values()) - kinds))
                    detsched.yield_(('set', excl))
            return _ls(fwd, other)

        def parse_impl(fwd, instring, loc, do_actions=True):
            if id(fwd) in impl.targets:
                detsched.yield_(('use',))
            return _pi(fwd, instring, loc, do_actions)
        self.parsing = False
        pyparsing.Forward.__lshift__ = lshift
        pyparsing.Forward.parseImpl = parse_impl
        self.scratch = scratch
        self.paths = {}
        self.solo = {}

    def path(self, orders, salt):
        key = (tuple(orders), salt)
        if key not in self.paths:
            p = os.path.join(self.scratch, 'l%d.res' % len(self.paths))
            with open(p, 'w', encoding='utf-8') as f:
                f.write(listing_text(list(orders), salt))
            self.paths[key] = p
            self.solo[key] = self.parse(p)
        return self.paths[key], self.solo[key]

    def parse(self, path):
        import numpy as np
        self.parsing = True          # re-bindings from here on are made by parse actions, not by the import of the grammar
        try:
            browser = self.P.Parser(path).parse_from_index(-1).to_browser()
        except Exception as ex:  # pylint: disable=broad-except
            return 'raised %s' % type(ex).__name__
        items = []
        for it in browser.content:
            meta = sorted((k, repr(v)) for k, v in it.items() if k != 'results')
            res = sorted((k, repr(np.asarray(v.value).tolist()), repr(np.asarray(v.error).tolist())) for k, v in it['results'].items()
                         if hasattr(v, 'value'))
            items.append((meta, res))
        return items

    def holder(self):
        held = [lk for lk in self.locks if lk.owner is not None]
        if not held:
            return 0
        own = held[0].owner
        return own.tid if hasattr(own, 'tid') else -1

    def execute(self, docs, strategy):
        """docs: list of order lists, one per thread.  Returns the record of one controlled execution."""
        ds = self.ds
        refs = [self.path(d, i + 1) for i, d in enumerate(docs)]
        got = {}
        owners = []

        def main():
            for i, (p, _solo) in enumerate(refs, 1):
                ds.CTL.spawn(lambda p=p, i=i: got.__setitem__(i, self.parse(p)), 't%d' % i)
        ctl = ds.Controller(strategy, max_steps=400, on_step=lambda c: owners.append(self.holder()))
        ctl.run(main)
        events = []
        for (tid, op), own in zip(ctl.trace, owners):
            if tid == 0:
                continue
            name = op if isinstance(op, str) else op[0]
            events.append(dict(t=tid, a=ACTION.get(name, name), excl=op[1] if name == 'set' else '', owner=own))
        cls = []
        for i, (_p, solo) in enumerate(refs, 1):
            r = got.get(i, 'missing')
            cls.append('error' if isinstance(r, str) else 'ok' if r == solo and not isinstance(solo, str) else 'split')
        return dict(docs=[[list(o) + ['r'] for o in d] for d in docs], events=events, cls=cls, verdict=ctl.verdict,
                    schedule=[t for t, _ in ctl.trace], blocked=[list(map(str, b)) for b in ctl.blocked],
                    solo_ok=[not isinstance(s, str) for _p, s in refs])


def _dfs(impl, docs, budget):
    from detsched import Indexed
    prefix, out = [], []
    while True:
        strat = Indexed(prefix)
        out.append(impl.execute(docs, strat))
        taken, widths = strat.taken, strat.widths
        k = len(taken) - 1
        while k >= 0 and taken[k] + 1 >= widths[k]:
            k -= 1
        if k < 0:
            return out, True
        if len(out) >= budget:
            return out, False
        prefix = taken[:k] + [taken[k] + 1]


def _worker(inp, outp):
    with open(inp) as f:
        job = json.load(f)
    impl = _Impl(job['scratch'])
    from detsched import Replay
    res = dict(explored=[], replayed=[])
    for docs in job['explore']:
        runs, complete = _dfs(impl, docs, job['budget'])
        res['explored'].append(dict(docs=docs, complete=complete, runs=runs))
    for item in job['replay']:
        strat = Replay([0] + item['schedule'], strict=False)
        rec = impl.execute(item['docs'], strat)
        rec['deviations'] = len(strat.deviations)
        res['replayed'].append(rec)
    with open(outp, 'w') as f:
        json.dump(res, f)


def impl_runs(wd, explore, replay, budget, name, timeout=300):
    inp, outp = os.path.join(wd, name + '.in.json'), os.path.join(wd, name + '.out.json')
    scratch = os.path.join(wd, name + '.listings')
    os.makedirs(scratch, exist_ok=True)
    with open(inp, 'w') as f:
        json.dump(dict(explore=explore, replay=replay, budget=budget, scratch=scratch), f)
    try:
        p = subprocess.run([sys.executable, os.path.abspath(__file__), '--worker', inp, outp], capture_output=True, text=True,
                           timeout=timeout, env=dict(os.environ, PYTHONHASHSEED='0'))
    except subprocess.TimeoutExpired as ex:
        raise tlc.MachineryError('conf_parselock worker timed out') from ex
    if p.returncode != 0 or not os.path.exists(outp):
        raise tlc.MachineryError('conf_parselock worker failed (rc=%s):\n%s' % (p.returncode, (p.stdout + p.stderr)[-3000:]))
    with open(outp) as f:
        return json.load(f)


# ---------------------------------------------------------------------------------------------
# TLC side

def _consts(threads, docs, locked=True):
    return {'Threads': frozenset(threads), 'Docs': Raw('<- ' + docs), 'Locked': locked, 'None': Raw('None')}


def model_check(ctx, wd):
    runs = [('locked-2x2', _consts('ab', 'MC_Docs2'), ['PL_Terminates']), ('locked-3x1', _consts('abc', 'MC_Docs1'), []),
            ('locked-all', _consts('ab', 'MC_DocsAll1'), [])]
    for name, consts, props in runs:
        cfg = tlc.write_cfg(os.path.join(wd, name + '.cfg'), spec='Spec', constants=consts, invariants=INVS, properties=props,
                            deadlock=False)
        res = tlc.run(SPEC_MC, cfg, timeout=900)
        ctx.tlc(res, 'ParseLock/' + name)
        if not res.ok:
            raise tlc.MachineryError('ParseLock.tla %s: %s\n%s' % (name, res.violation, res.out[-1500:]))
        tlc.check_coverage(res, ['Begin', 'Acquire', 'Set', 'Use'], 'ParseLock/' + name)
    # negative self-test and witnesses
    for inv, locked in (('PL_Right', False), ('W_Split', False), ('W_Error', False), ('W_Waits', True), ('W_BothDone', True)):
        cfg = tlc.write_cfg(os.path.join(wd, 'neg-%s.cfg' % inv), spec='Spec', constants=_consts('ab', 'MC_Docs1', locked),
                            invariants=[inv], deadlock=False)
        res = tlc.run(SPEC_MC, cfg, coverage=False, workers=2)
        if res.violation != ('invariant', inv):
            raise tlc.MachineryError('ParseLock.tla: %s is not violated with Locked=%s (vacuous model)' % (inv, locked))


def tlc_validate(ctx, wd, records, nthreads, name):
    """records: executions with `nthreads` threads.  Returns (reached, right) lists."""
    if not records:
        return [], []
    traces = [dict(docs=r['docs'], events=r['events'], cls=r['cls']) for r in records]
    tj = tlc.json_dump(os.path.join(wd, name + '.traces.json'), traces)
    oj = os.path.join(wd, name + '.verdict.json')
    cfg = tlc.write_cfg(os.path.join(wd, name + '.cfg'), spec='TSpec',
                        constants={'Threads': Raw('<- T%d' % nthreads), 'Docs': Raw('<- AnyDocs'), 'Locked': True, 'None': 0},
                        invariants=[], deadlock=False, postcondition='Post')
    res = tlc.run(TRACE, cfg, workers=1, coverage=False, env=dict(VERIF_TRACES=tj, VERIF_OUT=oj), timeout=1800)
    ctx.tlc(res, 'ParseLockTrace/' + name)
    if not res.ok or not os.path.exists(oj):
        raise tlc.MachineryError('ParseLockTrace %s: %s\n%s' % (name, res.violation, res.out[-2500:]))
    with open(oj) as f:
        v = json.load(f)
    return v['reached'], v['right']


def _orders(ctx):
    base = ['nt', 'tn', 'n', 'cnt', 'kc', 'tck']
    if not ctx.quick:
        import itertools
        base = [''.join(p) for n in (1, 2, 3) for p in itertools.permutations('ntck', n)]
    return base


def simulate(ctx, wd, n):
    """Behaviours of ParseLock (Locked) as schedules: [(docs, [thread index per action], [action names], classes)]."""
    sim = os.path.join(wd, 'sim')
    os.makedirs(sim, exist_ok=True)
    cfg = tlc.write_cfg(os.path.join(wd, 'sim.cfg'), spec='Spec', constants=_consts('ab', 'MC_Docs2'), invariants=['PL_Right'],
                        deadlock=False)
    res = tlc.run(SPEC_MC, cfg, simulate=dict(file=os.path.join(sim, 'b'), num=n), depth=16, seed=ctx.seed + 11, workers=1,
                  coverage=False, timeout=600)
    ctx.tlc(res, 'ParseLock/simulate')
    out = []
    for beh in tlc.read_sim_files(os.path.join(sim, 'b')):
        states = [st for _lbl, st in beh]
        if not states or any(states[-1]['pc'][t] != 'done' for t in states[-1]['pc']):
            continue
        names = sorted(states[0]['pc'])
        sched, acts = [], []
        for a, b in zip(states, states[1:]):
            moved = [t for t in names if a['pc'][t] != b['pc'][t] or a['rem'][t] != b['rem'][t] or a['out'][t] != b['out'][t]]
            if len(moved) != 1:
                sched = None
                break
            t = moved[0]
            sched.append(names.index(t) + 1)
            acts.append({'new': 'Begin', 'idle': 'Acquire', 'set': 'Set', 'use': 'Use'}[a['pc'][t]])
        if sched is None:
            continue
        docs = [[''.join(k for k in o if k != 'r') for o in states[0]['doc'][t]] for t in names]
        out.append(dict(docs=docs, schedule=sched, actions=acts))
    return out


def run(ctx, wd):
    ctx.rule('extra module ParseLock.tla (concurrent parsing, run inside C10): model checked for 2 and 3 threads over listings whose '
             'REACTION responses print their details in different orders (mutual exclusion, every listing read as when read alone, '
             'lock released, termination; negative self-test with the lock narrowed); code->spec: every schedule of real parser '
             'threads under the deterministic scheduler, validated by ParseLockTrace.tla; spec->code: simulated behaviours replayed '
             'as schedules.  A listing read differently beside another one is reported as C10/concurrent/...')
    model_check(ctx, wd)
    orders = _orders(ctx)
    docs = [[o] for o in orders] + [[orders[0], orders[1]], [orders[1], orders[3 % len(orders)]], []]
    explore = [[a, b] for i, a in enumerate(docs) for b in docs[i:]]
    rng = ctx.rng
    triples = [[rng.choice(docs), rng.choice(docs), rng.choice(docs)] for _ in range(ctx.pick(8, 120))]
    behs = simulate(ctx, wd, ctx.pick(150, 1500))
    seen, replay = set(), []
    for b in behs:
        key = json.dumps([b['docs'], b['schedule']])
        if key not in seen:
            seen.add(key)
            replay.append(b)
    from concurrent.futures import ThreadPoolExecutor
    jobs = explore + triples
    nproc = 8
    chunks = [(jobs[i::nproc], replay[i::nproc]) for i in range(nproc)]
    with ThreadPoolExecutor(max_workers=nproc) as tp:
        parts = list(tp.map(lambda a: impl_runs(wd, a[1][0], a[1][1], ctx.pick(60, 400), 'pl%d' % a[0], ctx.pick(300, 2400)), enumerate(chunks)))
    res = dict(explored=[x for p in parts for x in p['explored']], replayed=[x for p in parts for x in p['replayed']])
    replay = [x for i in range(nproc) for x in replay[i::nproc]]
    stats = dict(schedules=0, complete_pairs=0, replayed=len(replay), rejected=0, wrong=0)
    by_n = {2: [], 3: []}
    for ex in res['explored']:
        stats['complete_pairs'] += bool(ex['complete'])
        for r in ex['runs']:
            by_n[len(r['docs'])].append(r)
    for n, recs in by_n.items():
        reached, right = tlc_validate(ctx, wd, recs, n, 'explored%d' % n)
        for r, got, ok in zip(recs, reached, right):
            stats['schedules'] += 1
            ctx.count(traces=1, evaluations=1)
            ctx.distinct(('pl', json.dumps(r['docs']), tuple(r['schedule'])))
            case = dict(kind='concurrent', docs=[[''.join(k for k in o if k != 'r') for o in d] for d in r['docs']],
                        schedule=r['schedule'][1:])
            if not all(r['solo_ok']):
                raise tlc.MachineryError('a listing of the concurrent-parse harness does not parse alone: %s' % (r['docs'],))
            if not ok or r['verdict'] != 'ok':
                stats['wrong'] += 1
                what = ('deadlock' if r['verdict'] != 'ok' else '+'.join(sorted(set(c for c in r['cls'] if c != 'ok'))))
                ctx.violation('C10/concurrent/%s/%d-threads' % (what, n),
                              'listings with details %s parsed by %d threads under schedule %s: outcomes %s (verdict %s %s), each '
                              'parses correctly alone' % (case['docs'], n, case['schedule'], r['cls'], r['verdict'], r['blocked']),
                              case, module='conf_parselock', fn='replay_case')
            elif got != len(r['events']) + 2:
                stats['rejected'] += 1
                if stats['rejected'] <= 2:
                    ctx.drift('ParseLockTrace (strict) rejects event %d of a recorded execution: %s' % (got, r['events'][got - 1:got]))
    n_match = 0
    for b, r in zip(replay, res['replayed']):
        ctx.count(traces=1, evaluations=1)
        acts = [e['a'] for e in r['events']]
        if r['cls'] != ['ok'] * len(r['cls']):
            ctx.violation('C10/concurrent/replayed/%s' % '+'.join(sorted(set(r['cls']))),
                          'behaviour of ParseLock.tla replayed on the parser: outcomes %s' % (r['cls'],),
                          dict(kind='concurrent', docs=b['docs'], schedule=b['schedule']), module='conf_parselock', fn='replay_case')
        elif r['deviations'] or acts != b['actions']:
            stats['replay_mismatch'] = stats.get('replay_mismatch', 0) + 1
            if stats['replay_mismatch'] <= 2:
                ctx.drift('ParseLock behaviour not reproduced by the implementation: actions %s, model %s' % (acts, b['actions']))
        else:
            n_match += 1
    stats['replay_matched'] = n_match
    ctx.cov['parselock'] = stats
    return stats


def replay_case(case):
    wd = tlc.workdir('plr')
    res = impl_runs(wd, [], [dict(docs=case['docs'], schedule=case['schedule'])], 1, 'replay')
    r = res['replayed'][0]
    if r['verdict'] == 'ok' and all(c == 'ok' for c in r['cls']):
        return True, 'every listing is read as when read alone under schedule %s' % (case['schedule'],)
    return False, 'outcomes %s (verdict %s) under schedule %s' % (r['cls'], r['verdict'], case['schedule'])


if __name__ == '__main__':
    if len(sys.argv) == 4 and sys.argv[1] == '--worker':
        sys.path.insert(0, os.path.dirname(os.path.abspath(__file__)))
        _worker(sys.argv[2], sys.argv[3])
