"""Pipeline.tla <-> `valjean run`: job file -> collected tasks -> graphs -> schedule -> failed-tasks / environment files.

Extra module (outside the twenty listed properties): a disagreement between the real code and Pipeline.tla is reported
as an OBSERVATION (recorded in ctx.cov['pipeline']), never as a VIOLATION.

The implementation side is the real thing: a job file written into the scratch directory (real `Task` subclasses built
with deps= / soft_deps= / add_dependency()), `valjean.cambronne.main.make_parser().parse_args(argv)` +
`process_options` + `args.func(args, config)` (what `main()` does, keeping the returned environment) whenever the
command line matters, `RunCommand().execute(Namespace, Config)` otherwise, plus direct calls of `run_job`,
`collect_tasks`, `close_dependency_graph`.  The graphs and the environment handed to the scheduler are recorded by a
pass-through wrapper around `commands.run.schedule` (when the run command has no such helper: around the constructor and
the `schedule` method of `cosette.scheduler.Scheduler`; when that is not possible either the clauses GRAPH_CLAUSES are
not judged and one DRIFT line says so); what job() received and which tasks were executed come from a side file the job
file writes.

spec -> code : TLC enumerates every run of Pipeline.tla that deviates from the plainest one in at most W places
               (universe of 4-5 tasks: dependencies, shared names, task behaviours, job() list, how deps are passed,
               second run; command line: JOB_ARGs, -k tokens, -j, --env-filename, job file stem); every terminal
               state of the dump is replayed and the projection of what happened is compared with the `log` of TLC.
code -> spec : seeded random larger universes (up to 8 tasks) and command lines, recorded as JSON and judged by TLC
               through PipelineTrace.tla (clause by clause).
"""
import argparse
import json
import time
import os
import pickle
import re
import shutil
import sys
import threading
from concurrent.futures import ThreadPoolExecutor

import tlc
from tlc import Raw

SPEC_MC = os.path.join(tlc.SPECS, 'PipelineMC.tla')
TRACE = os.path.join(tlc.SPECS, 'PipelineTrace.tla')
INVS = ['TypeOK', 'PL_Least', 'PL_Names', 'PL_ErrorClean', 'PL_Graphs', 'PL_Status', 'PL_FailedFile', 'PL_EnvFiles',
        'PL_Rerun', 'PL_Args']
ACTIONS = ['Parse', 'Import', 'CallJob', 'Close', 'CheckNames', 'BuildGraphs', 'ReadEnv', 'Schedule', 'Diagnostics',
           'WriteEnv', 'EndRound']
ENVFILE = {'default': 'valjean.env', 'alt': 'alt.env'}
CLASH_STEM = 'colorsys'          # a harmless standard-library module: `valjean run colorsys.py`
SIGNATURE = "job(sel, tag='T', *, key='K')"
DOCLINES = ['Probe job: returns the tasks selected by `sel`.', 'Second paragraph of the docstring.']
TRACE_N = 8
HANG_TIMEOUT = 20
WITNESSES = ['W_Dup', 'W_TwoDups', 'W_SameNameOut', 'W_SoftOnly', 'W_Transitive', 'W_Uncollected', 'W_Repeat', 'W_EmptyJob', 'W_Skipped',
             'W_Failed', 'W_SoftFailRun', 'W_NoDir', 'W_BothEdge', 'W_Rerun', 'W_MayRerun', 'W_RerunOther', 'W_Mismatch', 'W_KwError', 'W_KwOverride',
             'W_KwEqInValue', 'W_SelByKw', 'W_Missing', 'W_DepsType']
# the clauses that need the recorder around the scheduler (Runner.recorder)
GRAPH_CLAUSES = ('hard-graph-nodes', 'hard-graph-edges', 'soft-graph-nodes', 'soft-graph-edges', 'read-env')
QUICK_UNREACHED = ['W_TwoDups', 'W_Rerun', 'W_MayRerun']    # need 5 resp. 3 deviations from the plainest run: thorough tier only (and random runs)

ALL = dict(DepKinds=frozenset(['none', 'hard', 'soft', 'both']), Kinds=frozenset(['ok', 'ok0', 'ko', 'raise']),
           Forms=frozenset(['list', 'tuple', 'set', 'add', 'gen']), Reruns=frozenset(['no', 'same', 'other']))
CLI = dict(KwTokens=Raw('<- MC_KwAll'), MaxKw=2, PosArgs=frozenset([0, 1, 2, 3]), Workers=frozenset([0, 1, 2]),
           EnvFiles=frozenset(['default', 'alt']), Files=frozenset(['plain', 'clash', 'twin', 'missing']))
NOCLI = dict(KwTokens=Raw('<- MC_KwNone'), MaxKw=0, PosArgs=frozenset([1]), Workers=frozenset([0]),
             EnvFiles=frozenset(['default']), Files=frozenset(['plain']))


def consts(**kw):
    c = dict(N=4, MaxJob=3, WG=2, WC=0, WT=2, CloseSoft=True)
    c.update(ALL)
    c.update(NOCLI)
    c.update(kw)
    return c


# ---------------------------------------------------------------------------------------------
# the job file

_HEADER = '''"""Job file written by the verification harness (conf_pipeline.py)."""
import json
import os
import threading

from valjean.cosette.task import Task, TaskStatus

_SIDE = %(side)r
_LOCK = threading.Lock()


def _note(**kw):
    with _LOCK:
        with open(_SIDE, 'a', encoding='utf-8') as side:
            side.write(json.dumps(kw) + '\\n')


class Probe(Task):
    """A task that ends as its `kind` says."""

    def __init__(self, name, uid, kind, **kw):
        super().__init__(name, **kw)
        self.uid = uid
        self.kind = kind

    def do(self, env, config):
        _note(ev='do', uid=self.uid)
        if self.kind == 'raise':
            raise RuntimeError('probe task fails by raising')
        res = {'uid': self.uid}
        if self.kind in ('ok', 'ko'):
            out = os.path.join(config.query('path', 'output-root'), self.name)
            os.makedirs(out, exist_ok=True)
            res['output_dir'] = out
        return {self.name: res}, (TaskStatus.DONE if self.kind in ('ok', 'ok0') else TaskStatus.FAILED)


'''

_JOB = '''

def job(sel, tag='T', *, key='K'):
    """Probe job: returns the tasks selected by `sel`.

    Second paragraph of the docstring."""
    _note(ev='job', marker=%(marker)r, sel=sel, tag=tag, key=key)
    tasks = build()
    return [tasks[int(i) - 1] for i in sel.split(',') if i]
'''


def _coll(form, items):
    names = ['t%d' % d for d in items]
    if form == 'tuple':
        return '(' + ''.join(n + ', ' for n in names) + ')'
    if form == 'set':
        return '{' + ', '.join(names) + '}' if names else 'set()'
    if form == 'gen':
        return '(x for x in [' + ', '.join(names) + '])'
    return '[' + ', '.join(names) + ']'


def job_source(case, side, marker='own'):
    n, form = case['n'], case['form']
    hard = {t: [] for t in range(1, n + 1)}
    soft = {t: [] for t in range(1, n + 1)}
    for e in case['dep']:
        if e['k'] in ('hard', 'both'):
            hard[e['t']].append(e['d'])
        if e['k'] in ('soft', 'both'):
            soft[e['t']].append(e['d'])
    out = [_HEADER % dict(side=side), 'def build():']
    for t in range(1, n + 1):
        kw = ''
        if form == 'add' or (form == 'list' and not hard[t]):
            pass                                      # deps=None
        else:
            kw += ', deps=' + _coll(form, hard[t])
        if soft[t] or form in ('tuple', 'set', 'gen'):
            kw += ', soft_deps=' + _coll('list' if form == 'add' else form, soft[t])
        out.append('    t%d = Probe(%r, %d, %r%s)' % (t, 'n%d' % case['name'][t - 1], t, case['kind'][t - 1], kw))
        if form == 'add':
            for d in hard[t]:
                out.append('    t%d.add_dependency(t%d)' % (t, d))
    out.append('    return [' + ', '.join('t%d' % t for t in range(1, n + 1)) + ']')
    return '\n'.join(out) + _JOB % dict(marker=marker)


def decoy_source(side):
    return (_HEADER % dict(side=side)) + '''
def job(sel, tag='T', *, key='K'):
    """Another job: no task."""
    _note(ev='job', marker='decoy', sel=sel, tag=tag, key=key)
    return []
'''


def tok_str(tok, selstr):
    return ''.join(selstr if a == 'S' else a for a in tok)


# ---------------------------------------------------------------------------------------------
# running the real code

def _name_int(s):
    m = re.fullmatch(r'n(\d+)', str(s))
    return int(m.group(1)) if m else -1


class Runner:
    """Everything that touches valjean."""

    def __init__(self, scratch):
        import core
        core.use_repo()
        from valjean.cambronne import main as vmain
        from valjean.cambronne import common
        from valjean.cambronne.commands import run as run_mod
        from valjean.cosette import task as task_mod
        from valjean.cosette.env import Env
        from valjean.config import Config
        from valjean import dyn_import as dyn_mod
        self.vmain, self.common, self.run_mod, self.task_mod = vmain, common, run_mod, task_mod
        self.Env, self.Config, self.dyn_mod = Env, Config, dyn_mod
        self.scratch = scratch
        self.counter = 0
        self.hung = 0
        self.seen = None
        sys.dont_write_bytecode = True
        # where the graphs and the environment handed to the scheduler are recorded
        self.recorder, self._orig = None, {}
        if callable(getattr(run_mod, 'schedule', None)):
            self.recorder, self._orig = 'commands.run.schedule', dict(schedule=run_mod.schedule)
        else:
            try:
                from valjean.cosette.scheduler import Scheduler
                self.Scheduler, self._orig = Scheduler, dict(init=Scheduler.__init__, schedule=Scheduler.schedule)
                self.recorder = 'cosette.scheduler.Scheduler'
            except (ImportError, AttributeError):
                pass

    def _record(self, hard_graph, soft_graph, env):
        TS = self.task_mod.TaskStatus

        def proj(g):
            nodes = list(g.nodes()) if g is not None else []
            return ([getattr(t, 'uid', -1) for t in nodes],
                    sorted([getattr(t, 'uid', -1), getattr(d, 'uid', -1)] for t in nodes for d in g.dependencies(t)))
        hn, he = proj(hard_graph)
        sn, se = proj(soft_graph)
        env0 = sorted(_name_int(k) for k, v in (env.items() if env is not None else ()) if isinstance(v, dict) and v.get('status') == TS.DONE)
        self.seen = dict(hnodes=hn, hedges=he, snodes=sn, sedges=se, env0=env0)

    # pass-through recorder around commands.run.schedule
    def _schedule(self, *, hard_graph, soft_graph, env, **kw):
        self._record(hard_graph, soft_graph, env)
        return self._orig['schedule'](hard_graph=hard_graph, soft_graph=soft_graph, env=env, **kw)

    def _install(self):
        runner = self
        if self.recorder == 'commands.run.schedule':
            self.run_mod.schedule = self._schedule
        elif self.recorder == 'cosette.scheduler.Scheduler':
            # the run command has no helper of its own: the graphs are seen when the Scheduler is constructed (hard_graph= and
            # soft_graph= are keyword-only there), the environment when its schedule() is called
            graphs = {}

            def init(this, *args, **kw):
                graphs[id(this)] = (kw.get('hard_graph'), kw.get('soft_graph'))
                runner._orig['init'](this, *args, **kw)

            def schedule(this, *args, **kw):
                runner._record(*graphs.get(id(this), (None, None)), kw.get('env'))
                return runner._orig['schedule'](this, *args, **kw)
            self.Scheduler.__init__, self.Scheduler.schedule = init, schedule

    def _uninstall(self):
        if self.recorder == 'commands.run.schedule':
            self.run_mod.schedule = self._orig['schedule']
        elif self.recorder == 'cosette.scheduler.Scheduler':
            self.Scheduler.__init__, self.Scheduler.schedule = self._orig['init'], self._orig['schedule']

    def classify(self, ex):
        msg = str(ex)
        if isinstance(ex, SystemExit):
            return 'exit%s' % (ex.code,), {}
        if isinstance(ex, ValueError) and 'cannot parse -k argument' in msg:
            return 'kwparse', {}
        if isinstance(ex, ValueError) and msg.startswith('Task names must be unique'):
            lines = msg.split('\n')[1:]
            return 'dupnames', dict(dups=[_name_int(l.strip()) for l in lines if l.strip()])
        if isinstance(ex, TypeError) and msg.startswith('argument mismatch to job() function'):
            ok = ('  signature:\n    ' + SIGNATURE) in msg and '  docstring:\n    ' + DOCLINES[0] in msg and \
                all(('\n    ' + l) in msg for l in DOCLINES)
            return 'mismatch', dict(msgok=bool(ok))
        if isinstance(ex, TypeError) and 'task argument must be either a collection of tasks or None' in msg:
            return 'taskdeps', {}
        return 'other:%s' % type(ex).__name__, dict(detail=msg[:200])

    def argv(self, case, rnd, cfgfile, jobfile):
        selstr = case['selstr']
        av = ['-c', cfgfile, 'run', jobfile] + [selstr, 'p1', 'p2'][:case['pos']]
        for tok in case['ktoks']:
            av += ['-k', tok_str(tok, selstr)]
        if case['workers']:
            av += ['-j', str(case['workers'])]
        f = self.cur_file(case, rnd)
        if f != 'default':
            av += ['--env-filename', ENVFILE[f]]
        return av

    @staticmethod
    def cur_file(case, rnd):
        if rnd == 1 or case['rerun'] == 'same':
            return case['envfile']
        return 'alt' if case['envfile'] == 'default' else 'default'

    @staticmethod
    def plain_cli(case):
        return case['pos'] == 1 and not case['ktoks'] and not case['workers'] and case['envfile'] == 'default' \
            and case['rerun'] != 'other'

    def run_case(self, case, use_parser=None):
        """Returns the list of observations, one per round."""
        self.counter += 1
        cdir = os.path.join(self.scratch, 'c%d' % self.counter)
        jdir = os.path.join(cdir, 'job')
        os.makedirs(jdir)
        side = os.path.join(cdir, 'side.jsonl')
        outroot, logroot = os.path.join(cdir, 'output'), os.path.join(cdir, 'log')
        stem = CLASH_STEM if case['file'] == 'clash' else 'pljob_%s_%d' % (os.path.basename(self.scratch), self.counter)
        jobfile = os.path.join(jdir, stem + '.py')
        if case['file'] != 'missing':
            with open(jobfile, 'w', encoding='utf-8') as f:
                f.write(job_source(case, side))
        cfgfile = os.path.join(cdir, 'cfg.toml')
        with open(cfgfile, 'w', encoding='utf-8') as f:
            f.write('[path]\nlog-root = "%s"\noutput-root = "%s"\nreport-root = "%s"\n' % (logroot, outroot, os.path.join(cdir, 'report')))
        if use_parser is None:
            use_parser = not self.plain_cli(case)
        saved_mod = sys.modules.get(stem)
        saved_path = list(sys.path)
        rounds = []
        try:
            if case['file'] == 'twin':            # a job file with the same stem was imported earlier from elsewhere
                ddir = os.path.join(cdir, 'decoy')
                os.makedirs(ddir)
                with open(os.path.join(ddir, stem + '.py'), 'w', encoding='utf-8') as f:
                    f.write(decoy_source(side))
                self.dyn_mod.dyn_import(os.path.join(ddir, stem + '.py'))
            for rnd in (1, 2):
                if rnd == 2 and (case['rerun'] == 'no' or rounds[0]['err']):
                    break
                rounds.append(self.one_round(case, rnd, cfgfile, jobfile, side, outroot, logroot, use_parser))
        finally:
            self._uninstall()
            for k in [k for k, m in sys.modules.items() if (getattr(m, '__file__', None) or '').startswith(cdir)]:
                del sys.modules[k]
            if saved_mod is not None:
                sys.modules[stem] = saved_mod
            elif case['file'] == 'clash':
                sys.modules.pop(stem, None)
            sys.path[:] = saved_path
            for k in [k for k in sys.path_importer_cache if k.startswith(cdir)]:
                del sys.path_importer_cache[k]
            shutil.rmtree(cdir, ignore_errors=True)
        return rounds

    def one_round(self, case, rnd, cfgfile, jobfile, side, outroot, logroot, use_parser):
        TS = self.task_mod.TaskStatus
        if os.path.exists(side):
            os.remove(side)
        self.seen = None
        self._install()
        obs = dict(err='', dups=[], msgok=False, jobfile='none', received=dict(sel='', tag='', key=''), returned=[], collected=[],
                   hnodes=[], hedges=[], snodes=[], sedges=[], env0=[], done=[], failedS=[], skipped=[], nonfinal=[],
                   executed=[], ffExists=False, ffLines=[], disk=[], diskbad=0, detail='')
        box = dict(env=None, job_args=None, job_kwargs=None, ex=None)

        def pipeline():
            try:
                if use_parser:
                    args = self.vmain.make_parser().parse_args(self.argv(case, rnd, cfgfile, jobfile))
                    config = self.vmain.process_options(args)
                    box['job_args'], box['job_kwargs'] = list(args.job_args), dict(args.job_kwargs)
                    box['env'] = args.func(args, config)
                else:
                    args = argparse.Namespace(job_file=jobfile, job_args=[case['selstr']], job_kwargs={}, workers=4,
                                              env_filename=ENVFILE[self.cur_file(case, rnd)], env_format='pickle')
                    config = self.Config({'path': {'log-root': logroot, 'output-root': outroot, 'report-root': outroot + '-report'}})
                    box['job_args'], box['job_kwargs'] = list(args.job_args), dict(args.job_kwargs)
                    box['env'] = self.run_mod.RunCommand().execute(args, config)
            except BaseException as ex:  # pylint: disable=broad-except
                box['ex'] = ex
        # in a daemon thread (the workers of the scheduler inherit the flag): an implementation that never comes back
        # must not hang the check
        th = threading.Thread(target=pipeline, daemon=True)
        th.start()
        th.join(HANG_TIMEOUT if self.hung < 5 else 3)
        self._uninstall()
        if th.is_alive():
            obs['err'] = 'hang'
            self.hung += 1
        elif box['ex'] is not None:
            obs['err'], extra = self.classify(box['ex'])
            obs.update(extra)
        env, job_args, job_kwargs = box['env'], box['job_args'], box['job_kwargs']
        events = []
        if os.path.exists(side):
            with open(side, encoding='utf-8') as f:
                events = [json.loads(l) for l in f if l.strip()]
        jobs = [e for e in events if e['ev'] == 'job']
        if jobs:
            obs['jobfile'] = jobs[0]['marker']
            obs['received'] = dict(sel=str(jobs[0]['sel']), tag=str(jobs[0]['tag']), key=str(jobs[0]['key']))
        obs['executed'] = [e['uid'] for e in events if e['ev'] == 'do']
        if self.seen:
            for k in ('hnodes', 'hedges', 'snodes', 'sedges', 'env0'):
                obs[k] = self.seen[k]
        if env is not None:
            for k, v in env.items():
                st = v.get('status') if isinstance(v, dict) else None
                bucket = {TS.DONE: 'done', TS.FAILED: 'failedS', TS.SKIPPED: 'skipped'}.get(st, 'nonfinal')
                obs[bucket].append(_name_int(k))
        # direct calls of the collecting functions (only when the command line got as far as calling job())
        if obs['err'] in ('', 'dupnames') and job_args is not None:
            try:
                ret = self.common.run_job(jobfile, job_args, job_kwargs)
                obs['returned'] = [getattr(t, 'uid', -1) for t in ret]
                if obs['err'] == '':
                    obs['collected'] = [getattr(t, 'uid', -1) for t in self.common.collect_tasks(jobfile, job_args, job_kwargs)]
                else:
                    obs['collected'] = [getattr(t, 'uid', -1) for t in self.task_mod.close_dependency_graph(ret)]
            except Exception as ex:  # pylint: disable=broad-except
                obs['detail'] = 'direct call: %s' % type(ex).__name__
                obs['returned'], obs['collected'] = [-1], [-1]
        ff = os.path.join(logroot, 'failed-tasks')
        if os.path.exists(ff):
            obs['ffExists'] = True
            with open(ff, encoding='utf-8') as f:
                obs['ffLines'] = [_name_int(l) for l in f.read().split('\n')[:-1]]
        if os.path.isdir(outroot):
            known = {v: k for k, v in ENVFILE.items()}
            for d in sorted(os.listdir(outroot)):
                for fn in sorted(os.listdir(os.path.join(outroot, d))):
                    if fn not in known:
                        continue
                    try:
                        with open(os.path.join(outroot, d, fn), 'rb') as f:
                            e = pickle.load(f)
                        keys = list(e.keys())
                        st = TS(e[d]['status']).name
                        if keys != [d]:
                            raise ValueError
                        obs['disk'].append(dict(name=_name_int(d), file=known[fn], status=st))
                    except Exception:  # pylint: disable=broad-except
                        obs['diskbad'] += 1
        return obs


def _worker(inp, outp):
    with open(inp) as f:
        job = json.load(f)
    runner = Runner(job['scratch'])
    os.makedirs(runner.scratch, exist_ok=True)
    out = [runner.run_case(case, use_parser) for case, use_parser in job['items']]
    with open(outp, 'w') as f:
        json.dump(dict(recorder=runner.recorder, rounds=out), f)


def replay_many(items, scratch):
    """Run the cases on the real code in a few fresh processes (every run is independent of the others); results in order,
    and where the graphs handed to the scheduler were recorded (Runner.recorder; None: they could not be)."""
    import subprocess
    nproc = max(1, min(6, tlc.NCPU // 2, len(items) // 50 + 1))
    parts = []
    for i in range(nproc):
        inp, outp = os.path.join(scratch, 'w%d.in.json' % i), os.path.join(scratch, 'w%d.out.json' % i)
        with open(inp, 'w') as f:
            json.dump(dict(scratch=os.path.join(scratch, 'w%d' % i), items=items[i::nproc]), f)
        parts.append((inp, outp))

    def one(io):
        try:
            p = subprocess.run([sys.executable, os.path.abspath(__file__), '--worker', io[0], io[1]], capture_output=True, text=True,
                               timeout=3000, env=dict(os.environ, PYTHONHASHSEED='0'))
        except subprocess.TimeoutExpired as ex:
            raise tlc.MachineryError('conf_pipeline worker timed out') from ex
        if p.returncode != 0 or not os.path.exists(io[1]):
            why = ([l for l in p.stderr.strip().splitlines() if l.strip()] or ['no output'])[-1].strip()  # the exception line of the traceback
            raise tlc.MachineryError('conf_pipeline worker failed (rc=%s): %s\n%s' % (p.returncode, why[:250], (p.stdout + p.stderr)[-3000:]))
        with open(io[1]) as f:
            return json.load(f)
    with ThreadPoolExecutor(max_workers=nproc) as tp:
        outs = list(tp.map(one, parts))
    res = [None] * len(items)
    for i, out in enumerate(outs):
        res[i::nproc] = out['rounds']
    return res, outs[0]['recorder']


# ---------------------------------------------------------------------------------------------
# TLC state -> case / expected rounds; comparison

def case_of_state(st):
    n = len(st['name'])
    job = list(st['job'])
    return dict(n=n, dep=sorted((dict(t=k[0], d=k[1], k=str(v)) for k, v in dict(st['dep']).items() if v != 'none'),
                                key=lambda e: (e['t'], e['d'])),
                name=list(st['name']), kind=[str(k) for k in st['kind']], form=str(st['form']), job=job,
                rerun=str(st['rerun']), pos=int(st['pos']), ktoks=[[str(a) for a in tok] for tok in st['ktoks']],
                workers=int(st['workers']), envfile=str(st['envfile']), file=str(st['file']),
                selstr=','.join(str(t) for t in job))


def _seq(v):
    """A TLC sequence / function over 1..k -> list."""
    if isinstance(v, dict):
        return [v[k] for k in sorted(v)]
    return list(v)


def model_round(m, selstr):
    join = lambda atoms: tok_str(_seq(atoms), selstr)
    return dict(err=str(m['err']), dups=set(m['dups']), received={k: join(m['received'][k]) for k in ('sel', 'tag', 'key')},
                returned=_seq(m['returned']), collected=set(m['collected']), hnodes=set(m['hnodes']),
                hedges=set(tuple(e) for e in m['hedges']), snodes=set(m['snodes']), sedges=set(tuple(e) for e in m['sedges']),
                env0=set(m['env0']), done=set(m['done']), failedS=set(m['failedS']), skipped=set(m['skipped']),
                executed=set(m['executed']), mayexec=set(m['mayexec']), ffExists=bool(m['ffExists']), ffNames=set(m['ffNames']),
                disk=set((e['name'], str(e['file']), str(e['status'])) for e in m['disk']))


def clauses(m, o):
    """Python mirror of PipelineTrace!Clauses: m = model_round(...), o = observation.  Used for spec -> code, where the
    expected value is what TLC computed; the two are cross-checked on a sample (see run)."""
    norep = lambda s: len(s) == len(set(s))
    if o['err'] != m['err']:
        return {'outcome/expected-' + (m['err'] or 'success')}
    out = set()
    if m['err']:
        if m['err'] == 'dupnames' and set(o['dups']) != m['dups']:
            out.add('dup-message')
        if m['err'] == 'mismatch' and not o['msgok']:
            out.add('mismatch-message')
        if o['executed'] or o['disk'] or o['ffExists']:
            out.add('clean-after-error')
        return out
    tests = {
        'job-file': o['jobfile'] != 'own',
        'job-args': o['received'] != m['received'],
        'returned': list(o['returned']) != m['returned'],
        'closure': set(o['collected']) != m['collected'],
        'collected-once': not norep(o['collected']),
        'hard-graph-nodes': set(o['hnodes']) != m['hnodes'] or not norep(o['hnodes']),
        'hard-graph-edges': set(tuple(e) for e in o['hedges']) != m['hedges'],
        'soft-graph-nodes': set(o['snodes']) != m['snodes'] or not norep(o['snodes']),
        'soft-graph-edges': set(tuple(e) for e in o['sedges']) != m['sedges'],
        'read-env': set(o['env0']) != m['env0'],
        'env-entries': set(o['done']) | set(o['failedS']) | set(o['skipped']) | set(o['nonfinal']) != m['done'] | m['failedS'] | m['skipped'],
        'final-status': bool(o['nonfinal']) or set(o['done']) != m['done'] or set(o['failedS']) != m['failedS']
                        or set(o['skipped']) != m['skipped'],
        'executed': not (m['executed'] <= set(o['executed']) <= m['mayexec']) or not norep(o['executed']),
        'failed-file': o['ffExists'] != m['ffExists'] or (m['ffExists'] and (set(o['ffLines']) != m['ffNames'] or not norep(o['ffLines']))),
        'env-files': set((e['name'], e['file'], e['status']) for e in o['disk']) != m['disk'] or o['diskbad'] > 0,
    }
    return {k for k, bad in tests.items() if bad}


def terminal_states(dump):
    """Terminal states of a TLC dump (streamed: the dump of the thorough tier is large)."""
    path = dump if os.path.exists(dump) else dump + '.dump'
    from tlaval import parse_state
    block, keep = [], False
    with open(path) as f:
        for line in f:
            if line.startswith('State ') and line.rstrip().endswith(':'):
                if keep:
                    yield parse_state(''.join(block))
                block, keep = [], False
                continue
            block.append(line)
            if 'stage |-> "end"' in line:
                keep = True
    if keep:
        yield parse_state(''.join(block))


# ---------------------------------------------------------------------------------------------
# code -> spec

def pad_case(case):
    u = dict(case)
    n = case['n']
    u['name'] = list(case['name']) + list(range(n + 1, TRACE_N + 1))
    u['kind'] = list(case['kind']) + ['ok'] * (TRACE_N - n)
    return u


def judge(ctx, wd, recs, tag):
    """recs: [(case, observed rounds)] -> per record the set of (round, clause) TLC finds in disagreement."""
    if not recs:
        return []
    traces = [dict(u=pad_case(c), obs=[{k: v for k, v in o.items() if k != 'detail'} for o in obs]) for c, obs in recs]
    tj = tlc.json_dump(os.path.join(wd, 'pl_%s.json' % tag), traces)
    oj = os.path.join(wd, 'pl_%s_out.json' % tag)
    c = consts(N=TRACE_N, MaxJob=0, WG=0, WT=0)
    c['KwTokens'] = frozenset()
    cfg = tlc.write_cfg(os.path.join(wd, 'pl_%s.cfg' % tag), spec='TSpec', constants=c, deadlock=False, postcondition='Post')
    res = tlc.run(TRACE, cfg, workers=1, coverage=False, env=dict(VERIF_TRACES=tj, VERIF_OUT=oj), timeout=1500)
    ctx.tlc(res, 'PipelineTrace/' + tag)
    if not res.ok or not os.path.exists(oj):
        raise tlc.MachineryError('PipelineTrace %s: %s\n%s' % (tag, res.violation, res.out[-2500:]))
    with open(oj) as f:
        out = json.load(f)['verdict']
    verdicts = []
    for v in out:
        v = set((int(r), str(cl)) for r, cl in v)
        if (0, 'unjudged') in v:
            raise tlc.MachineryError('PipelineTrace did not run a recorded execution to its end')
        verdicts.append(v)
    return verdicts


KW_ATOMS = [['key', '=', 'v1'], ['key', '=', 'a', '=', 'b'], ['tag', '=', 'p9'], ['zz', '=', '1'], ['key'], ['sel', '=', 'S'],
            ['key', '='], ['=', 'x'], ['tag', '=', '='], [], ['key', '=', 'v 2'], ['tag', '=', 'S'], ['v1', '=', 'key'], ['=']]


def random_case(rng):
    n = rng.randint(2, TRACE_N)
    p_edge = rng.choice([0.15, 0.3, 0.5])
    dep = []
    for t in range(2, n + 1):
        for d in range(1, t):
            if rng.random() < p_edge:
                dep.append(dict(t=t, d=d, k=rng.choice(['hard', 'hard', 'soft', 'soft', 'both'])))
    name = list(range(1, n + 1))
    rng.shuffle(name)
    if rng.random() < 0.3:
        for _ in range(rng.randint(1, 2)):
            a, b = rng.sample(range(n), 2)
            name[a] = name[b]
    kind = [rng.choice(['ok'] * 6 + ['ok0', 'ok0', 'ko', 'ko', 'raise']) for _ in range(n)]
    job = [rng.randint(1, n) for _ in range(rng.choice([0, 1, 1, 2, 2, 3, 4]))]
    cli = rng.random() < 0.4
    pos = rng.choice([1, 1, 1, 1, 0, 2, 2, 3]) if cli else 1
    ktoks = [list(rng.choice(KW_ATOMS)) for _ in range(rng.choice([0, 1, 1, 2, 3]))] if cli else []
    if pos == 0 and rng.random() < 0.7:
        ktoks.insert(rng.randint(0, len(ktoks)), ['sel', '=', 'S'])
    return dict(n=n, dep=dep, name=name, kind=kind, form=rng.choice(['list'] * 4 + ['tuple', 'set', 'add', 'add'] + (['gen'] if rng.random() < 0.2 else [])),
                job=job, rerun=rng.choice(['no', 'no', 'same', 'same', 'other']), pos=pos, ktoks=ktoks,
                workers=rng.choice([0, 0, 1, 2, 3, 8]), envfile=rng.choice(['default', 'default', 'alt']),
                file=rng.choice(['plain'] * 12 + ['clash', 'twin', 'missing']) if cli or rng.random() < 0.1 else 'plain',
                selstr=','.join(str(t) for t in job))


# ---------------------------------------------------------------------------------------------

def _size(case):
    extras = (case['pos'] != 1) + len(case['ktoks']) + bool(case['workers']) + (case['envfile'] != 'default') + (case['file'] != 'plain') \
        + (case['rerun'] != 'no') + (case['form'] != 'list') + sum(k != 'ok' for k in case['kind'])
    return (case['n'] + len(case['dep']) + len(case['job']) + extras, len(json.dumps(case)))


STAGE_ORDER = ['rounds', 'outcome', 'dup-message', 'mismatch-message', 'clean-after-error', 'job-file', 'job-args', 'returned', 'closure',
               'collected-once', 'hard-graph-nodes', 'hard-graph-edges', 'soft-graph-nodes', 'soft-graph-edges', 'read-env', 'executed',
               'final-status', 'env-entries', 'failed-file', 'env-files']


def first_clause(verdict):
    """The earliest disagreement of a run, in the order of the stages (later ones are usually its consequences)."""
    rank = lambda rc: (rc[0] or 99, STAGE_ORDER.index(rc[1].split('/')[0]) if rc[1].split('/')[0] in STAGE_ORDER else 99, rc[1])
    return min(verdict, key=rank)


def obs_key(cl, case, o):
    """Class of a disagreement (for grouping only: the verdict itself comes from TLC)."""
    if case['file'] != 'plain':
        return 'dyn-import/job-file-%s' % {'clash': 'stem-is-an-importable-module', 'twin': 'stem-imported-earlier-from-another-directory',
                                           'missing': 'does-not-exist'}[case['file']]
    if cl.startswith('outcome/'):
        return cl + '/got-%s' % (o.get('err') or 'success')
    return cl


def describe(case):
    d = ['%d tasks' % case['n']]
    if case['dep']:
        d.append('deps ' + ' '.join('%d-%s->%d' % (e['t'], e['k'], e['d']) for e in case['dep']))
    if case['name'] != list(range(1, case['n'] + 1)):
        d.append('names %s' % case['name'])
    if set(case['kind']) != {'ok'}:
        d.append('kinds %s' % case['kind'])
    d.append('job() returns %s' % case['job'])
    if case['form'] != 'list':
        d.append('deps passed as %s' % case['form'])
    if case['pos'] != 1 or case['ktoks']:
        d.append('%d JOB_ARG, -k %s' % (case['pos'], [tok_str(t, case['selstr']) for t in case['ktoks']]))
    if case['workers']:
        d.append('-j %d' % case['workers'])
    if case['envfile'] != 'default':
        d.append('--env-filename alt.env')
    if case['file'] != 'plain':
        d.append({'clash': 'job file named %s.py' % CLASH_STEM, 'twin': 'a job file with the same stem imported earlier from another directory',
                  'missing': 'job file does not exist'}[case['file']])
    if case['rerun'] != 'no':
        d.append('second run with %s env file name' % case['rerun'])
    return '; '.join(d)


def run(ctx, wd):
    quick = ctx.quick
    observations = {}
    ctx.rule('extra module Pipeline.tla (`valjean run`: job file -> collected tasks -> graphs -> schedule -> failed-tasks and environment '
             'files; outside the listed properties, disagreements are OBSERVATIONs): spec->code replays every run TLC enumerates that '
             'deviates from the plainest run in at most W places (dependencies, shared names, task behaviours, list returned by job(), '
             'form of deps=, second run, JOB_ARGs, -k tokens, -j, --env-filename, job file stem); code->spec judges seeded random '
             'universes of up to 8 tasks with PipelineTrace.tla.  A run is non-trivial when it differs from every other run in its '
             'universe or command line.')
    ctx.assume('Pipeline: probe tasks end as their kind says (DONE/FAILED/raise, with or without output_dir) and take no time; the '
               'scheduler is one abstract step here (Sched.tla specifies it); the up-to-date rule of a second run is that of Runs.tla')

    def note_run(case, obs, verdict, exp):
        r, cl = first_clause(verdict)
        o = obs[r - 1] if 0 < r <= len(obs) else dict(err='(%d rounds observed)' % len(obs))
        also = sorted('%s@%d' % (c, q) for q, c in verdict if (q, c) != (r, cl))
        note(obs_key(cl, case, o), case, r, dict(o, also=also), _jsonable_round(exp[r - 1]) if exp and 0 < r <= len(exp) else None)

    def note(key, case, rnd, o, expected):
        cur = observations.get(key)
        if cur is None:
            cur = observations[key] = dict(count=0, example=None, _size=None, _last=None)
        if cur['_last'] is not case:           # count runs, not clauses
            cur['count'] += 1
            cur['_last'] = case
        if cur['_size'] is None or _size(case) < cur['_size']:
            cur['_size'] = _size(case)
            cur['example'] = dict(case=case, round=rnd, what=describe(case), observed={k: o[k] for k in o if o[k] not in ([], '', False, 0)},
                                  expected=expected)

    # ---- model checking: slices of the weight-bounded enumeration + witnesses + negative self-test, run concurrently
    slices = [('graph', consts(WG=2, WT=2)),
              ('cmdline', consts(N=2, WG=1, WC=2, WT=2, Kinds=frozenset(['ok', 'ko']), **CLI))]
    if not quick:
        F = frozenset
        slices = [('graph3', consts(WG=3, WT=3, DepKinds=F(['none', 'hard', 'soft']), Kinds=F(['ok', 'ok0', 'ko']), Forms=F(['list', 'add', 'gen']))),
                  ('graph', consts(WG=2, WT=2)),
                  ('graph5', consts(N=5, WG=2, WT=2)),
                  ('names', consts(WG=5, WT=5, MaxJob=1, DepKinds=F(['none', 'hard']), Kinds=F(['ok']), Forms=F(['list']), Reruns=F(['no']))),
                  ('rerun3', consts(N=3, WG=4, WT=4, MaxJob=1, DepKinds=F(['none', 'hard', 'soft']), Kinds=F(['ok', 'ok0', 'ko']), Forms=F(['list']),
                                    Reruns=F(['no', 'same']))),
                  ('cmdline', consts(N=2, WG=1, WC=2, WT=2, Kinds=F(['ok', 'ko']), **CLI)),
                  ('cmdline3', consts(N=2, WG=0, WC=3, WT=3, Kinds=F(['ok', 'ko']), **dict(CLI, MaxKw=3)))]
    jobs = [('enum', name, c, INVS) for name, c in slices]
    jobs.append(('neg', 'PL_Least', consts(WG=2, WT=2, CloseSoft=False, MaxJob=1, Kinds=frozenset(['ok']), Forms=frozenset(['list']),
                                           Reruns=frozenset(['no'])), ['PL_Least']))

    def tlc_job(j):
        kind, name, c, invs = j
        cfg = tlc.write_cfg(os.path.join(wd, '%s-%s.cfg' % (kind, name)), spec='MCSpec', constants=c, invariants=invs, deadlock=False)
        if kind == 'enum':
            return tlc.run(SPEC_MC, cfg, dump=os.path.join(wd, 'dump-' + name), timeout=1500, workers=max(2, tlc.NCPU // len(jobs)))
        return tlc.run(SPEC_MC, cfg, coverage=False, workers=2, timeout=600)
    t0 = time.time()
    with ThreadPoolExecutor(max_workers=len(jobs)) as tp:
        results = list(tp.map(tlc_job, jobs))
    seconds = dict(model_checking=round(time.time() - t0, 1))
    witnessed = {w: 0 for w in WITNESSES}
    for (kind, name, c, invs), res in zip(jobs, results):
        if kind == 'enum':
            ctx.tlc(res, 'Pipeline/' + name)
            if not res.ok:
                raise tlc.MachineryError('Pipeline.tla %s: %s\n%s' % (name, res.violation, res.out[-2000:]))
            tlc.check_coverage(res, ACTIONS + (['KwError', 'JobMissing', 'ArgMismatch'] if name.startswith('cmdline') else
                                               ['DupNames'] + (['DepsType'] if name not in ('names', 'rerun3') else [])), 'Pipeline/' + name)
            for w in WITNESSES:
                witnessed[w] += res.coverage.get('A_' + w[2:], [0, 0])[1]
        elif res.violation != ('invariant', name):
            raise tlc.MachineryError('negative self-test: Pipeline.tla with CloseSoft = FALSE does not violate %s (%s)' % (name, res.violation))
    # witnesses: the terminal states in which W_x is false are counted by TLC (stuttering actions A_x of PipelineMC)
    missing = [w for w, k in witnessed.items() if k == 0 and not (quick and w in QUICK_UNREACHED)]
    if missing:
        raise tlc.MachineryError('vacuous model Pipeline.tla: witnesses never reached in the enumerated runs: %s' % missing)

    # ---- the cases: spec -> code (every terminal state TLC dumped) and code -> spec (seeded random larger universes)
    t0 = time.time()
    scratch = os.path.join(wd, 'cases')
    os.makedirs(scratch, exist_ok=True)
    stats = dict(enumerated={}, replayed=0, rounds=0, random_runs=0, random_rounds=0, disagreeing_runs=0)
    enum = []                                   # (slice, case, expected rounds)
    for name, _c in slices:
        k = 0
        for st in terminal_states(os.path.join(wd, 'dump-' + name)):
            case = case_of_state(st)
            enum.append((name, case, [model_round(m, case['selstr']) for m in _seq(st['log'])]))
            k += 1
        stats['enumerated'][name] = k
        dump = os.path.join(wd, 'dump-' + name + '.dump')
        if os.path.exists(dump):
            os.remove(dump)
        if k == 0:
            raise tlc.MachineryError('Pipeline.tla %s: no terminal state in the dump' % name)
    rng = ctx.rng
    rcases = [random_case(rng) for _ in range(ctx.pick(250, 3000))]
    seconds['read_dumps'] = round(time.time() - t0, 1)
    t0 = time.time()
    all_obs, recorder = replay_many([(case, True if name.startswith('cmdline') else None) for name, case, _e in enum] + [(c, True) for c in rcases], scratch)
    unjudged = set() if recorder else set(GRAPH_CLAUSES)
    if unjudged:
        ctx.drift('extra module Pipeline: neither commands.run.schedule nor cosette.scheduler.Scheduler can be wrapped to see the graphs and the '
                  'environment handed to the scheduler: clauses %s not judged, everything else is' % ', '.join(GRAPH_CLAUSES))
    seconds['implementation_runs'] = round(time.time() - t0, 1)
    t0 = time.time()
    sample = []
    for k, ((name, case, exp), obs) in enumerate(zip(enum, all_obs), 1):
        ctx.count(evaluations=len(obs), traces=1)
        ctx.distinct(('pl', json.dumps(case, sort_keys=True)))
        stats['rounds'] += len(obs)
        bad = set()
        if len(obs) != len(exp):
            bad.add((0, 'rounds'))
        for r, (m, o) in enumerate(zip(exp, obs), 1):
            for cl in clauses(m, o) - unjudged:
                bad.add((r, cl))
        if bad:
            stats['disagreeing_runs'] += 1
            note_run(case, obs, bad, exp)
        if len(sample) < 400 and (bad or k % 7 == 0):
            sample.append((case, obs, bad))
        if k % 400 == 1:
            ctx.sample(dict(slice=name, run=describe(case), rounds=[dict(err=o['err'], collected=sorted(o['collected']), done=o['done'],
                                                                       failed=o['failedS'], skipped=o['skipped']) for o in obs]))
    stats['replayed'] = len(enum)
    recs = list(zip(rcases, all_obs[len(enum):]))
    stats['random_runs'] = len(recs)
    stats['random_rounds'] = sum(len(o) for _c, o in recs)
    ctx.count(evaluations=stats['random_rounds'])
    # negative self-test of the trace checker: one recorded field corrupted in executions that agree with the model
    clean = [(c, o) for c, o, b in sample if not b and not o[0]['err'] and o[0]['collected']][:40]
    if len(clean) < 5:
        raise tlc.MachineryError('conf_pipeline: no clean recorded execution to corrupt for the negative self-test')
    corrupted, expect = [], []
    for i, (c, o) in enumerate(clean):
        o = json.loads(json.dumps(o))
        which = i % 5
        if which == 0:
            o[0]['collected'] = o[0]['collected'][1:]
            expect.append('closure')
        elif which == 1:
            o[0]['ffExists'] = not o[0]['ffExists']
            expect.append('failed-file')
        elif which == 2:
            o[0]['done'], o[0]['skipped'] = o[0]['skipped'], o[0]['done']
            expect.append('final-status' if o[0]['done'] != o[0]['skipped'] else None)
        elif which == 3 and o[0]['hnodes']:
            o[0]['hedges'] = o[0]['hedges'] + [[o[0]['hnodes'][0], o[0]['hnodes'][0]]]
            expect.append('hard-graph-edges')
        else:
            o[0]['received'] = dict(o[0]['received'], key=o[0]['received']['key'] + 'x')
            expect.append('job-args')
        corrupted.append((c, o))
    # one TLC run judges: the cross-check sample (the Python comparison used for spec -> code and the clauses of
    # PipelineTrace.tla must agree), the corrupted executions, the random executions
    batch = [(c, o) for c, o, _b in sample] + corrupted + recs
    verdicts = []
    step = 2000
    for k in range(0, len(batch), step):
        verdicts += judge(ctx, wd, batch[k:k + step], 'batch%d' % k)
    if unjudged:        # the corrupted executions keep their full verdict
        keep = range(len(sample), len(sample) + len(corrupted))
        verdicts = [v if k in keep else {(r, cl) for r, cl in v if cl not in unjudged} for k, v in enumerate(verdicts)]
    for (c, _o, bad), v in zip(sample, verdicts):
        if v != bad:
            raise tlc.MachineryError('conf_pipeline.clauses and PipelineTrace!Clauses disagree on %s: %s vs %s' % (describe(c), sorted(bad), sorted(v)))
    for v, e in zip(verdicts[len(sample):], expect):
        if e is not None and (1, e) not in v:
            raise tlc.MachineryError('negative self-test: PipelineTrace accepts a recorded execution whose %s field was corrupted' % e)
    seconds['trace_validation'] = round(time.time() - t0, 1)
    ctx.count(traces=len(recs))
    for (case, obs), v in zip(recs, verdicts[len(sample) + len(corrupted):]):
        ctx.distinct(('plr', json.dumps(case, sort_keys=True)))
        if v:
            stats['disagreeing_runs'] += 1
            note_run(case, obs, v, None)

    for v in observations.values():
        v.pop('_size', None)
        v.pop('_last', None)
    ctx.cov['pipeline'] = dict(stats, witnesses=witnessed, seconds=seconds, scheduler_recorded_at=recorder or 'nowhere',
                               observations={k: observations[k] for k in sorted(observations)})
    print_summary('Pipeline', 'pipeline', observations)
    return stats


def print_summary(module, name, observations, strip=''):
    """The ONE line an extra module prints per run (nothing when there is nothing to observe): the classes with their counts,
    most frequent first, at most 300 characters.  Count and smallest example of every class stay in the evidence
    (ctx.cov[name]['observations'])."""
    if not observations:
        return
    try:
        '\u2014\u2026'.encode(getattr(sys.stdout, 'encoding', None) or 'ascii')
        dash, dots = '\u2014', '\u2026'
    except (UnicodeError, LookupError):
        dash, dots = '--', '...'
    head = 'OBSERVATION (%s, outside the listed properties) %d classes, %d cases: ' % (
        module, len(observations), sum(v['count'] for v in observations.values()))
    tail = ' %s details in evidence coverage.%s.observations' % (dash, name)
    items = ['%s (%d)' % (k[len(strip):] if strip and k.startswith(strip) else k, v['count'])
             for k, v in sorted(observations.items(), key=lambda kv: (-kv[1]['count'], kv[0]))]
    room = 300 - len(head) - len(tail)
    shown = []
    for n, item in enumerate(items):
        if len(', '.join(shown + [item])) + (len(dots) + 2 if n + 1 < len(items) else 0) > room:
            shown.append(dots)
            break
        shown.append(item)
    print(head + ', '.join(shown) + tail)


def _jsonable_round(m):
    out = {}
    for k, v in m.items():
        if isinstance(v, (set, frozenset)):
            out[k] = sorted(list(x) if isinstance(x, tuple) else x for x in v)
        else:
            out[k] = v
    return out


if __name__ == '__main__':
    if len(sys.argv) == 4 and sys.argv[1] == '--worker':
        sys.path.insert(0, os.path.dirname(os.path.abspath(__file__)))
        _worker(sys.argv[2], sys.argv[3])
