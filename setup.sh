#!/bin/sh
# Offline setup: nothing to build; sanity-check the tool chain and parse every specification.
set -e
cd "$(dirname "$0")"
java -version >/dev/null 2>&1
/venv/bin/python -c "import numpy, hypothesis, jsonschema"
for f in specs/*.tla; do
  java -cp /opt/veriftools/tla/tla2tools.jar:/opt/veriftools/tla/CommunityModules-deps.jar -DTLA-Library=specs tla2sany.SANY "$f" >/tmp/sany.$$ 2>&1 || { cat /tmp/sany.$$; rm -f /tmp/sany.$$; exit 1; }
done
rm -f /tmp/sany.$$
/venv/bin/python -m compileall -q harness >/dev/null
echo setup ok
